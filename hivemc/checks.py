"""one function per property: builds a Check, runs its explorations, returns the exit status"""
from __future__ import annotations

from . import tier
from .fsxcheck import bisim
from .fsxcheck import run as fsx
from .report import Check, log

RES = ("hivemc.w_res", "make")
GRID = ("hivemc.w_grid", "make")


def c02() -> int:
    c = Check("C02", "explicit-state BFS of the real step function (FSX), deviation-bounded")
    c.assumptions += [
        "exhaustive only inside the closed worlds and bounds listed under coverage.explorations",
        "canonical-key abstraction of DESIGN.md 2.3 (static audit + index guard)",
    ]
    quick = tier() == "quick"
    needs = [
        "default:DispatchStation>ChargeQueueing",
        "default:ChargeQueueing>ChargingStation",
        "default:ChargingStation>Idle|auto:ChargingStation:Idle:Idle",
        "default:ChargingBase>ReserveBase",
        "default:DispatchBase>ReserveBase",
        "default:DispatchBase>Idle",
    ]
    fsx(c, RES + ({"variant": "core"},), ("hivemc.bundles", "c02", {}), K=3 if quick else 4, H=7, needs=needs)
    fsx(c, GRID + ({"pairs": True},), ("hivemc.bundles", "c02", {}), K=2 if quick else 3, H=9 if quick else 11,
        needs=["default:DispatchStation>ChargeQueueing", "default:DispatchBase>ReserveBase"])
    # vehicles with idle draw: one holds the DCFC plug for many steps, a nearly empty one queues and runs dry while waiting
    fsx(c, RES + ({"variant": "full", "mechs": ("thirsty", "thirsty", "quiet"), "name": "W-res/drain"},), ("hivemc.bundles", "c02", {}),
        K=2 if quick else 3, H=9 if quick else 10, needs=["c02:queued_vehicle_empty"])
    # a combustion vehicle among electric plugs and a gas pump; human and autonomous drivers that speak
    fsx(c, RES + ({"variant": "core", "gas": True, "mechs": ("thirsty", "tiny_thirsty", "ice"), "name": "W-res/energy"},), ("hivemc.bundles", "c02", {}),
        K=2 if quick else 3, H=7 if quick else 9)
    fsx(c, ("hivemc.w_prec", "make", {}), ("hivemc.bundles", "c02", {}), K=2 if quick else 3, H=6 if quick else 8)
    # tariff rows falling due (ChargingPriceUpdate) and plugs re-rated at run time (scale_charger_rate) while vehicles charge and queue:
    # both rewrite the per-plug record that also holds the free-plug and waiting counters
    fsx(c, RES + ({"variant": "core", "gas": True, "prices": True, "mechs": ("thirsty", "small", "thirsty"), "queued_start": True, "name": "W-res/money/queued"},), ("hivemc.bundles", "c02", {}),
        K=2 if quick else 3, H=6 if quick else 8, needs=["c02:counters_rewritten_while_queued"])
    # every resource with TWO slots (two plugs per type, two stalls): several holders at once, so a double release or a
    # double claim is not masked by the models' own 0 / total guards
    fsx(c, RES + ({"variant": "core", "slots": 2, "low_energy": False, "name": "W-res/two-slots"},), ("hivemc.bundles", "c02", {}), K=3, H=5 if quick else 7,
        needs=["c02:two_holders"])
    # two bases on one cell (one without plugs, one with): a vehicle parked at one is told to charge / park at the other
    fsx(c, RES + ({"variant": "core", "twin_base": True, "pairs": False, "name": "W-res/twin-base"},), ("hivemc.bundles", "c02", {}), K=2 if quick else 3, H=6 if quick else 8,
        needs=["instr:ReserveBase:ChargeBase:ChargingBase"])
    # the station serving base b0 (on the base's cell) offers two plug types: plugged in at the station on one, told to charge through
    # the base on the other (and back)
    fsx(c, RES + ({"variant": "core", "bs_two_plugs": True, "pairs": False, "name": "W-res/base-station-two-plugs"},), ("hivemc.bundles", "c02", {}), K=2 if quick else 3, H=6 if quick else 8,
        needs=["instr:ChargingStation:ChargeBase:ChargingBase"])
    auto_worlds(c, "c02", quick, grid=True)
    if not quick:
        fsx(c, RES + ({"variant": "core", "slots": 2, "low_energy": False, "name": "W-res/two-slots/menu-probe"},), ("hivemc.bundles", "c02_probe", {}), K=2, H=7, needs=["c02:menu_probe"])
    bisim(c, RES + ({"variant": "core", "pairs": False},), K=1 if quick else 2, H=3 if quick else 4)
    return c.finish()


AUTO = ("hivemc.w_auto", "make")


def auto_worlds(c, bundle: str, quick: bool, make=AUTO, extra=None, needs=(), grid: bool = False):
    """the default control stack left to run (Dispatcher + ChargingFleetManager + drivers' own logic), the environment only
    deciding when the requests arrive -- long horizon; and the same with a scripted controller overriding it -- short horizon"""
    kw = dict(extra or {})
    fsx(c, make + (dict(kw),), ("hivemc.bundles", bundle, {}), K=3, H=14 if quick else 22,
        needs=["auto:Idle:DispatchStation:DispatchStation", "auto:Idle:DispatchTrip:DispatchTrip", "auto:ReserveBase:ChargeBase:ChargingBase",
               "auto:Idle:DispatchBase:DispatchBase", "default:ChargingBase>ReserveBase", "default:DispatchBase>ReserveBase",
               "default:ChargingStation>Idle|auto:ChargingStation:Idle:Idle"] + list(needs))
    fsx(c, make + (dict(kw, controller=True),), ("hivemc.bundles", bundle, {}), K=2, H=7 if quick else 9)
    # the human driver has no plug at home: going off shift he charges at a public station on the way (queues with the others)
    fsx(c, make + (dict(kw, home_plug=False),), ("hivemc.bundles", bundle, {}), K=3, H=12 if quick else 18)
    if grid:
        # the same default control stack on the street grid (several links per route, off-street addresses)
        fsx(c, GRID + ({"auto": True},), ("hivemc.bundles", bundle, {}), K=2, H=12 if quick else 20)


def c07() -> int:
    c = Check("C07", "explicit-state BFS of the real step function (FSX), deviation-bounded")
    c.assumptions += [
        "exhaustive only inside the closed worlds and bounds listed under coverage.explorations",
        "canonical-key abstraction of DESIGN.md 2.3",
    ]
    quick = tier() == "quick"
    needs = ["c07:pickup", "c07:dropoff", "instr:Idle:ChargeBase:ChargingBase", "instr:Idle:ReserveBase:Idle",
             "instr:Idle:ChargeStation:Idle"]
    fsx(c, RES + ({"variant": "full" if not quick else "core"},), ("hivemc.bundles", "c07", {}), K=2 if quick else 3, H=7 if quick else 9, needs=needs)
    # on every reached state, every instruction of the full menu (far-away, missing, wrong-plug targets included) is applied and
    # the place invariant judged on the result: one more deviation than the search budget, from EVERY reached state
    fsx(c, RES + ({"variant": "core", "name": "W-res/menu-probe"},), ("hivemc.bundles", "c07_probe", {}), K=2, H=6 if quick else 8, needs=["c07:menu_probe"])
    fsx(c, GRID + ({"pairs": True},), ("hivemc.bundles", "c07", {}), K=2 if quick else 3, H=10 if quick else 11, needs=["c07:pickup", "c07:dropoff"])
    # a base whose station stands on another cell (bases.csv and stations.csv carry independent coordinates)
    fsx(c, RES + ({"variant": "core", "split_base": True, "pairs": False, "name": "W-res/split-base"},), ("hivemc.bundles", "c07", {}), K=2 if quick else 3, H=7 if quick else 9,
        needs=["instr:Idle:ChargeBase:ChargingBase", "instr:ChargingStation:ChargeBase:ChargingStation|instr:Idle:ChargeBase:Idle"])
    fsx(c, ("hivemc.w_prec", "make", {}), ("hivemc.bundles", "c07", {}), K=2 if quick else 3, H=6 if quick else 8)
    fsx(c, REQ + ({"requests": ["p0", "p1", "r2"], "name": "W-req/pooling", "prestart": ("p0", "p1")},), ("hivemc.bundles", "c07", {}), K=2 if quick else 3, H=8 if quick else 10, needs=["c07:pickup", "c07:dropoff"])
    auto_worlds(c, "c07", quick, grid=True, needs=["c07:pickup", "c07:dropoff"])
    from .enum_pooling import run as pooling_plans

    pooling_plans(c, "C07")
    bisim(c, GRID + ({},), K=1 if quick else 2, H=4 if quick else 5)
    return c.finish()


REQ = ("hivemc.w_req", "make")


def c03() -> int:
    c = Check("C03", "explicit-state BFS of the real step function (FSX) with a per-request life-cycle history variable")
    c.assumptions += [
        "exhaustive only inside the closed worlds and bounds listed under coverage.explorations",
        "non-pooling requests (allows_pooling=False), as in every shipped input",
    ]
    quick = tier() == "quick"
    needs = ["c03:pickup", "c03:cancel", "c03:cancel_while_vehicle_en_route", "c03:dropoff_later_step",
             "c03:pickup_and_dropoff_same_step", "c03:stranded", "c03:instruction_to_vehicle_with_passengers",
             "default:DispatchTrip>Idle"]
    fsx(c, REQ + ({},), ("hivemc.bundles", "c03", {}), K=3 if quick else 4, H=8 if quick else 10, needs=needs)
    fsx(c, REQ + ({"dispatcher": True},), ("hivemc.bundles", "c03", {}), K=3 if quick else 4, H=8 if quick else 10, needs=needs[:4])
    # requests that allow pooling (optional column of the request file), served by autonomous vehicles as one-request pooling trips
    fsx(c, REQ + ({"requests": ["p0", "p1", "r2"], "name": "W-req/pooling", "prestart": ("p0", "p1")},), ("hivemc.bundles", "c03", {}), K=3 if quick else 4, H=8 if quick else 10,
        needs=["c03:pickup", "c03:dropoff_later_step", "c03:instruction_to_pooling_vehicle_with_passengers", "default:DispatchTrip>ServicingPoolingTrip"])
    auto_worlds(c, "c03", quick, needs=["c03:pickup", "c03:dropoff_later_step"])
    from .enum_pooling import run as pooling_plans

    pooling_plans(c, "C03")
    bisim(c, REQ + ({"pairs": False},), K=1 if quick else 2, H=3 if quick else 4)
    return c.finish()


def c17() -> int:
    c = Check("C17", "explicit-state BFS of the real step function (FSX), deviation-bounded")
    c.assumptions += ["exhaustive only inside the closed worlds and bounds listed under coverage.explorations"]
    quick = tier() == "quick"
    K, H = (3, 8) if quick else (4, 10)
    needs = ["c17:dispatchtrip_state", "default:DispatchTrip>OutOfService", "default:DispatchTrip>ServicingTrip",
             "instr:DispatchTrip:DispatchStation:DispatchStation", "instr:DispatchTrip:Idle:Idle",
             "instr:DispatchTrip:DispatchTrip:DispatchTrip", "c03:cancel_while_vehicle_en_route"]
    fsx(c, REQ + ({},), ("hivemc.bundles", "c17", {}), K=K, H=H, needs=needs[:-1])
    fsx(c, REQ + ({"dispatcher": True},), ("hivemc.bundles", "c17", {}), K=K, H=H)
    fsx(c, REQ + ({"dispatcher": True, "controller": False, "cancel": 600},), ("hivemc.bundles", "c17_builtin", {}), K=3, H=H + 6,
        needs=["c17:vehicle_under_way_at_step_boundary", "c17:open_request_offered"])
    fsx(c, REQ + ({"dispatcher": True, "controller": False, "fleets": ("f1", "f2"), "cancel": 600, "name": "W-req/dispatcher-only/2fleets"},),
        ("hivemc.bundles", "c17_builtin", {}), K=3, H=H + 6)
    # configuration in which vehicles already en route may be matched again (valid_dispatch_states incl. DispatchTrip)
    fsx(c, REQ + ({"dispatcher": True, "controller": False, "cancel": 600, "dispatch_states": ["idle", "repositioning", "dispatchtrip"], "requests": ["r0", "r3", "r5"], "name": "W-req/dispatcher-only/rematch"},),
        ("hivemc.bundles", "c17_builtin", {}), K=3, H=H + 6, needs=["c17:vehicle_under_way_at_step_boundary"])
    fsx(c, REQ + ({"dispatcher": True, "cancel": 600, "dispatch_states": ["idle", "repositioning", "dispatchtrip"], "requests": ["r0", "r3", "r5"], "name": "W-req+dispatcher/rematch"},),
        ("hivemc.bundles", "c17", {}), K=K, H=H)
    # start state with r0 already waiting: hand-overs (one vehicle taken off a request, another dispatched to it in the same step)
    fsx(c, REQ + ({"prestart": ("r0",), "requests": ["r0", "r1"], "low": False, "name": "W-req/handover"},), ("hivemc.bundles", "c17", {}), K=3, H=5 if quick else 7, needs=["c17:fresh_dispatch"])
    # a human driver whose shift ends while under way to a request and who has nowhere to go home to (no plug at home, no station)
    for k in (1, 2):
        fsx(c, REQ + ({"dispatcher": True, "controller": False, "cancel": 600, "human_shift": k, "low": False, "requests": ["r0", "r6"], "name": f"W-req/dispatcher-only/shift-ends-after-{k}"},),
            ("hivemc.bundles", "c17_builtin", {}), K=2, H=H + 2, needs=["c17:vehicle_under_way_at_step_boundary"])
    fsx(c, REQ + ({"human_shift": 2, "requests": ["r0", "r6"], "name": "W-req/shift-ends"},), ("hivemc.bundles", "c17", {}), K=K, H=H)
    # a vehicle with idle draw that one idle step empties: it stands Idle with exactly 0 energy for one step
    fsx(c, REQ + ({"drain": True, "name": "W-req/drain"},), ("hivemc.bundles", "c17", {}), K=K, H=H - 2 if quick else H, needs=["instr:Idle:DispatchTrip:OutOfService"])
    auto_worlds(c, "c17", quick)
    # multi-request pooling plans (only reachable through the vehicle-state API): entered, travelled, the leading request possibly gone,
    # then stopped -- every request of the plan must be released
    from .enum_pooling import run_c17 as interrupted_pooling_plans

    interrupted_pooling_plans(c)
    return c.finish()


def c04() -> int:
    from .enum_energy import c04_enum

    c = Check("C04", "bounded exhaustive operation sequences through the real mechatronics vs a ledger oracle (ENUM) + per-transition energy monitor in FSX")
    c.assumptions += ["ENUM: alphabet and depth listed in coverage.rule", "FSX: world W-res/energy with one BEV with idle draw, one small-battery BEV and one ICE vehicle"]
    c04_enum(c)
    quick = tier() == "quick"
    needs = ["c04:moved:ICE", "c04:moved:BEV", "c04:charged:BEV:ChargingStation", "c04:charged:BEV:ChargingBase", "c04:charged:ICE:ChargingStation",
             "c04:idled:BEV:Idle", "c04:idled:ICE:Idle", "c04:idled:BEV:ChargeQueueing", "c04:ran_dry:BEV:DispatchStation|c04:ran_dry:BEV:DispatchBase|c04:ran_dry:BEV:Repositioning"]
    fsx(c, RES + ({"variant": "core", "gas": True, "mechs": ("thirsty", "tiny_thirsty", "ice"), "name": "W-res/energy"},),
        ("hivemc.bundles", "c04", {}), K=2 if quick else 3, H=7 if quick else 9, needs=needs)
    # stations whose plug rates were lowered at run time
    fsx(c, RES + ({"variant": "core", "gas": True, "mechs": ("thirsty", "tiny_thirsty", "ice"), "throttle": 0.24, "name": "W-res/energy/throttled"},),
        ("hivemc.bundles", "c04", {}), K=2, H=6 if quick else 8, needs=["c04:charged:BEV:ChargingStation", "c04:charged:BEV:ChargingBase"])
    auto_worlds(c, "c04", quick, grid=True)
    return c.finish()


def c05() -> int:
    c = Check("C05", "explicit-state BFS of the real step function (FSX) with a per-transition conservation monitor (sums follow by induction over paths)")
    c.assumptions += ["exhaustive only inside the closed worlds and bounds listed under coverage.explorations",
                      "additive ledgers are decided per transition: if every explored transition preserves delta(accumulator) = sum(events of the step), every explored path preserves the sums"]
    quick = tier() == "quick"
    needs = ["c05:charge:ChargingStation:DCFC", "c05:charge:ChargingStation:LEVEL_2", "c05:charge:ChargingBase:LEVEL_2",
             "c05:charge:ChargingStation:GAS_PUMP", "c05:charge_at_nonzero_tariff", "env:P", "c05:fare"]
    fsx(c, RES + ({"variant": "core", "gas": True, "prices": True, "mechs": ("thirsty", "small", "ice"), "name": "W-res/money"},),
        ("hivemc.bundles", "c05", {}), K=2 if quick else 3, H=7 if quick else 9, needs=needs)
    fsx(c, REQ + ({},), ("hivemc.bundles", "c05", {}), K=3 if quick else 4, H=8 if quick else 10, needs=["c05:fare"])
    fsx(c, REQ + ({"requests": ["p0", "p1", "r2"], "name": "W-req/pooling", "prestart": ("p0", "p1")},), ("hivemc.bundles", "c05", {}), K=2 if quick else 3, H=8 if quick else 10, needs=["c05:fare"])
    from .enum_pooling import run as pooling_plans

    pooling_plans(c, "C05")
    # another operator's station on the base's own cell (id sorting before the serving station's, other tariff)
    fsx(c, RES + ({"variant": "core", "gas": True, "prices": True, "mechs": ("thirsty", "small", "ice"), "decoy_station": True, "pairs": False, "name": "W-res/money/decoy-station"},),
        ("hivemc.bundles", "c05", {}), K=2, H=6 if quick else 8, needs=["c05:charge:ChargingBase:LEVEL_2"])
    auto_worlds(c, "c05", quick, extra={"prices": True}, needs=["c05:charge:ChargingBase:LEVEL_2", "c05:charge:ChargingStation:DCFC|c05:charge:ChargingStation:LEVEL_2", "c05:fare"])
    return c.finish()


def c06() -> int:
    from .enum_journeys import c06_enum

    c = Check("C06", "bounded exhaustive enumeration of whole journeys (position pairs x step lengths x target kinds) judged step by step from the stored routes (ENUM) + the same per-step oracle as an FSX monitor")
    c06_enum(c)
    quick = tier() == "quick"
    fsx(c, RES + ({"variant": "core"},), ("hivemc.bundles", "c06", {}), K=2 if quick else 3, H=7 if quick else 9,
        needs=["c06:judged:DispatchStation", "c06:judged:DispatchBase", "c06:judged:Repositioning", "c06:judged:ServicingTrip", "c06:mid_link_split"])
    fsx(c, REQ + ({},), ("hivemc.bundles", "c06", {}), K=3 if quick else 4, H=8 if quick else 10, needs=["c06:judged:DispatchTrip", "c06:judged:ServicingTrip"])
    fsx(c, GRID + ({"pairs": True},), ("hivemc.bundles", "c06", {}), K=2 if quick else 3, H=10 if quick else 12,
        needs=["c06:judged:DispatchStation", "c06:judged:DispatchBase", "c06:judged:Repositioning", "c06:judged:ServicingTrip", "c06:mid_link_split"])
    # requests that allow pooling (optional column of the request file), served by autonomous vehicles
    fsx(c, REQ + ({"requests": ["p0", "p1", "r2"], "name": "W-req/pooling", "prestart": ("p0", "p1")},), ("hivemc.bundles", "c06", {}), K=2 if quick else 3, H=8 if quick else 10,
        needs=["c06:judged:ServicingPoolingTrip"])
    # arrivals with a full battery / tank (small-battery v0 starts full)
    fsx(c, RES + ({"variant": "core", "mechs": ("small", "small", "quiet"), "v0_energy": 1.0, "name": "W-res/full"},), ("hivemc.bundles", "c06", {}), K=2, H=6 if quick else 8,
        needs=["default:DispatchStation>Idle|default:DispatchStation>ChargingStation"])
    c.assumptions += ["speeds >= 10 km/h; links never declared shorter than the straight line; H3 resolution 15",
                      "journeys use a half-charged vehicle (the full-battery arrival is exercised in the FSX worlds)"]
    # battery vehicles, a combustion vehicle, electric plugs and a gas pump: plugs a powertrain cannot use are in the menu
    fsx(c, RES + ({"variant": "core", "gas": True, "mechs": ("thirsty", "tiny_thirsty", "ice"), "name": "W-res/energy"},), ("hivemc.bundles", "c06", {}), K=2, H=7 if quick else 9)
    auto_worlds(c, "c06", quick, grid=True)
    return c.finish()


def c08() -> int:
    from .enum_index import c08_enum

    c = Check("C08", "explicit-state BFS to closure over SimulationState values with the index operations as transitions (ENUM) + index monitor on every FSX state")
    closed = c08_enum(c)
    c.exhaustive = bool(closed)
    quick = tier() == "quick"
    fsx(c, RES + ({"variant": "core"},), ("hivemc.bundles", "c08", {}), K=2 if quick else 3, H=7 if quick else 9,
        needs=["default:DispatchTrip>ServicingTrip", "default:ServicingTrip>Idle", "env:R"])
    fsx(c, REQ + ({},), ("hivemc.bundles", "c08", {}), K=3 if quick else 4, H=8 if quick else 10)
    # two requests with the SAME origin cell (r2, r3), admitted in one step or one after the other
    fsx(c, REQ + ({"requests": ["r2", "r3", "r0"], "name": "W-req/same-origin"},), ("hivemc.bundles", "c08", {}), K=3, H=5 if quick else 7)
    fsx(c, GRID + ({},), ("hivemc.bundles", "c08", {}), K=2 if quick else 3, H=9 if quick else 11)
    auto_worlds(c, "c08", quick, grid=True)
    c.assumptions += ["re-adding an id that is already present is outside the alphabet (the API gives it no meaning)"]
    return c.finish()


def c09() -> int:
    c = Check("C09", "explicit-state BFS of the real step function (FSX); on every reached state every instruction of the full menu is applied through apply_instructions (atomicity), and every pair of instructions from two generators is stepped (precedence)")
    quick = tier() == "quick"
    fsx(c, RES + ({"variant": "core", "name": "W-res/atomic"},), ("hivemc.bundles", "c09_atomicity", {}), K=2, H=6 if quick else 8,
        needs=["c09:refused:ChargeStation", "c09:refused:ReserveBase", "c09:refused:ChargeBase", "c09:refused:DispatchStation", "c09:refused:DispatchTrip", "c09:entered:ChargeBase"])
    fsx(c, RES + ({"variant": "core", "name": "W-res/atomic-pairs", "atomic_pairs": True},), ("hivemc.bundles", "c09_atomicity", {}), K=1, H=4 if quick else 5,
        needs=["c09:pairs"])
    # the request world with pooling: instructions naming requests that do not exist, empty pooling plans
    fsx(c, REQ + ({"requests": ["p0", "p1", "r2"], "name": "W-req/pooling/atomic", "prestart": ("p0", "p1")},), ("hivemc.bundles", "c09_atomicity", {}), K=2, H=5 if quick else 7,
        needs=["c09:refused:Pool", "c09:refused:DispatchTrip"])
    fsx(c, ("hivemc.w_prec", "make", {}), ("hivemc.bundles", "c09_precedence", {}), K=2 if quick else 3, H=6 if quick else 8,
        needs=["c09:winner:driver", "c09:winner:G1", "c09:winner:G2", "c09:both_generators_same_vehicle", "c09:one_generator_two_instructions_same_vehicle"])
    return c.finish()


def _c10_config(cfg):
    import logging

    logging.disable(logging.CRITICAL)
    from .fsx import explore

    K, H, kw = cfg
    res = explore(("hivemc.w_mem", "make", kw), ("hivemc.bundles", "c10", {}), K=K, H=H, workers=1)
    from .worlds import history_to_json

    return {
        "kw": kw, "states": res.states, "transitions": res.transitions, "replays": res.replays, "cov": dict(res.cov),
        "outcomes": len(res.outcomes), "samples": [history_to_json(h) for h in res.samples[:1]],
        "violations": [(list(sig[1:]), v.msg, history_to_json(v.history), v.world) for sig, v in res.violations.items()],
    }


def c10() -> int:
    import itertools
    from collections import Counter

    from . import seed
    from .enumrun import pmap, rotate
    from .report import Finding

    c = Check("C10", "explicit-state BFS of the real step function (FSX), one exploration per membership assignment (exhaustive over the assignment alphabet)")
    quick = tier() == "quick"
    M = ("none", "f1", "f2", "both")
    configs = []
    if quick:
        for v0, s0, b0, r0 in itertools.product(M, M, M, ("f1", "f2")):
            configs.append((2, 5, {"v0": v0, "v1": "f1", "s0": s0, "b0": b0, "bs": b0, "r0": r0}))
        for v1 in ("none", "f2", "both"):
            configs.append((2, 5, {"v0": "f1", "v1": v1, "s0": "f2", "b0": "f1", "bs": "f2", "r0": "f2"}))
        # scenarios that declare exactly ONE fleet: outsiders are vehicles without fleet (the human driver has only its private membership)
        for v0, v1, s0 in itertools.product(("none", "f1"), ("none", "f1"), ("none", "f1")):
            configs.append((2, 5, {"v0": v0, "v1": v1, "s0": s0, "b0": s0, "bs": s0, "r0": "f1", "declared": ["f1"]}))
    else:
        for v0, v1, s0, b0, bs, r0 in itertools.product(M, M, M, M, M, ("f1", "f2")):
            configs.append((2, 5, {"v0": v0, "v1": v1, "s0": s0, "b0": b0, "bs": bs, "r0": r0}))
        for v0, v1, s0, b0, bs in itertools.product(("none", "f1"), repeat=5):
            configs.append((2, 5, {"v0": v0, "v1": v1, "s0": s0, "b0": b0, "bs": bs, "r0": "f1", "declared": ["f1"]}))
    from .enum_member import c10_enum

    c10_enum(c)
    from .enum_fleetfile import c10_files

    c10_files(c)
    results = pmap(_c10_config, rotate(configs, seed()))
    cov = Counter()
    for r in results:
        cov.update(r["cov"])
        for sig, msg, hist, world in r["violations"]:
            c.add(Finding("C10", sig, f"[{world}] {msg} (history: {hist})", {"engine": "fsx", "world_spec": ["hivemc.w_mem", "make", r["kw"]], "monitor_spec": ["hivemc.bundles", "c10", {}], "history": hist}))
    c.coverage.update({
        "states": c.coverage.get("states", 0) + sum(r["states"] for r in results),
        "transitions": c.coverage.get("transitions", 0) + sum(r["transitions"] for r in results),
        "traces_validated_against_impl": sum(r["replays"] for r in results),
        "membership_configurations": len(configs),
        "bounds": {"K": 2, "H": 5},
        "coverage_matrix": {k: v for k, v in sorted(cov.items()) if k.startswith("c10:")},
        "samples": c.coverage.get("samples", []) + [{"world": r["kw"], "history": r["samples"][0]} for r in results[:3] if r["samples"]],
    })
    for cell in ("c10:activity_with_target:DispatchTrip", "c10:activity_with_target:ChargingStation", "c10:activity_with_target:ReserveBase",
                 "c10:activity_with_target:ChargingBase", "c10:builtin:Dispatcher:DispatchTrip", "c10:builtin:ChargingFleetManager:DispatchStation",
                 "c10:builtin:driver:DispatchBase", "c10:builtin:driver:ChargeBase"):
        if not cov.get(cell):
            c.vacuous.append(cell)
    c.exhaustive = True  # every listed assignment explored to its bounds, activity-level enumeration complete
    c.assumptions += ["for ChargingBase the membership judged is the base's (the statement's 'charging at a ... base'); a base whose attached station belongs to another fleet is counted, not judged",
                      "requests carry exactly one fleet (file-admissible when fleets exist)"]
    log(f"  C10: {len(configs)} membership configurations, {c.coverage['states']} states, {c.coverage['transitions']} transitions")
    return c.finish()


def c11() -> int:
    from .enum_timed import c11 as run

    return run()


def c12() -> int:
    from .enum_dispatch import c12 as run

    return run()


def c13() -> int:
    from .enum_routes import c13 as run

    return run()


def c14() -> int:
    from .enum_routes import c14 as run

    return run()


def c01() -> int:
    from .ord import c01 as run

    return run()


def c15() -> int:
    from .comp import c15 as run

    return run()


def c16() -> int:
    c = Check("C16", "explicit-state BFS of the real step function (FSX); every transition wrapped with deep fingerprints of the retained states and executed twice")
    c.assumptions += ["a SimulationState is 'read' through a deep structural walk that follows mutable containers and objects of the library (road network included)"]
    quick = tier() == "quick"
    from .fsx_divergence import guarded as gfsx
    gfsx(c, fsx, ("hivemc.w_imm", "make_res", {"variant": "core"}), ("hivemc.bundles", "c16", {}), K=2, H=6 if quick else 8, needs=["c16:apply_calls"])
    gfsx(c, fsx, ("hivemc.w_imm", "make_req", {}), ("hivemc.bundles", "c16", {}), K=2 if quick else 3, H=7 if quick else 9, needs=["c16:apply_calls"])
    gfsx(c, fsx, ("hivemc.w_imm", "make_grid", {}), ("hivemc.bundles", "c16", {}), K=2, H=7 if quick else 9, needs=["c16:apply_calls"])
    # the built-in Dispatcher as carried-forward controller; stations throttled at run time (mid-power plugs)
    gfsx(c, fsx, ("hivemc.w_imm", "make_req", {"dispatcher": True, "name": "W-req+dispatcher/imm"}), ("hivemc.bundles", "c16", {}), K=2, H=6 if quick else 8, needs=["c16:carried_controller_steps"])
    gfsx(c, fsx, ("hivemc.w_imm", "make_res", {"variant": "core", "throttle": 0.24, "mechs": ("thirsty", "thirsty", "quiet"), "pairs": False, "name": "W-res/imm/throttled"}),
        ("hivemc.bundles", "c16", {}), K=2, H=5 if quick else 7, needs=["c16:carried_controller_steps"])
    gfsx(c, fsx, ("hivemc.w_imm", "make_auto", {}), ("hivemc.bundles", "c16", {}), K=2, H=10 if quick else 16, needs=["c16:carried_controller_steps"])
    # requests in two different search cells: the on-shift human driver's "go where the demand is" answer differs between states that
    # carry the same clock value
    gfsx(c, fsx, ("hivemc.w_imm", "make_auto", {"requests": ["r0", "r4"], "name": "W-auto/two-cells"}), ("hivemc.bundles", "c16", {}), K=2, H=8 if quick else 12)
    # a low human-driven vehicle the ChargingFleetManager looks at every step, dispatched by the controller, whose shift ends under way
    gfsx(c, fsx, ("hivemc.w_imm", "make_auto", {"controller": True, "home_plug": False, "h0_energy": 0.6}), ("hivemc.bundles", "c16", {}), K=2, H=6 if quick else 9)
    # the second station-search strategy (its ranking replays the sessions of the plugged and queued vehicles) beside the controller:
    # v0 (nearly empty) is sent to s0 by the manager and plugs in, a vehicle the controller sends there queues, and v2, whose idle
    # draw makes it a charge candidate a few steps later, ranks busy s0 against empty s1 in the same ring of search cells
    # two nearly empty vehicles of different fleets searching for a plug from one search cell; what each may use lies at a different
    # ring depth of the search (anything the search remembers between calls changes what the next call returns)
    # the same tiny world in fresh processes with different histories (nothing before / another simulation with the same request ids and
    # the same / exchanged fares before): identical states after every step of every arrival schedule
    from .diffprimer import c16_differential

    c16_differential(c)
    # the charging queue with vehicles that joined in the same step and fewer plugs released than tied vehicles
    gfsx(c, fsx, ("hivemc.w_imm", "make_fifo", {}), ("hivemc.bundles", "c16", {}), K=3, H=6 if quick else 9)
    for swap in (False, True):
        gfsx(c, fsx, ("hivemc.w_imm", "make_seek", {"swap": swap}), ("hivemc.bundles", "c16", {}), K=2, H=5 if quick else 8, needs=["c16:carried_controller_steps"])
    gfsx(c, fsx, ("hivemc.w_imm", "make_res", {"variant": "core", "auto": "stc", "mechs": ("thirsty", "thirsty", "thirsty"), "v2_energy": 0.23, "v2_site": "N3", "s1_site": "M2", "pairs": False, "name": "W-res/imm/stc"}),
        ("hivemc.bundles", "c16", {}), K=2, H=5 if quick else 8)
    return c.finish()


def c18() -> int:
    c = Check("C18", "explicit-state BFS of the real step function (FSX), deviation-bounded")
    c.assumptions += ["plugs taken through the queue's own default transition and through instructions generated by the library itself (drivers) are judged; plug-ins the scripted controller itself directed are counted, not judged (DESIGN.md 4/C18)"]
    quick = tier() == "quick"
    FIFO = ("hivemc.w_fifo", "make")
    needs = ["c18:grant_while_another_keeps_waiting", "c18:abandoned_queue", "c18:grant_by_queue", "c18:tie_on_enqueue_time"]
    fsx(c, FIFO + ({},), ("hivemc.bundles", "c18", {}), K=4 if quick else 6, H=9 if quick else 12, needs=needs)
    fsx(c, FIFO + ({"small": True},), ("hivemc.bundles", "c18", {}), K=3 if quick else 5, H=9 if quick else 12, needs=needs[:1])
    fsx(c, FIFO + ({"plugs": ["DCFC", "LEVEL_2"]},), ("hivemc.bundles", "c18", {}), K=3 if quick else 5, H=8 if quick else 11, needs=needs[:1])
    # the queue spans midnight (run starts three minutes before the end of a day); fleets in use with a public station
    fsx(c, FIFO + ({"midnight": True},), ("hivemc.bundles", "c18", {}), K=4 if quick else 5, H=9 if quick else 11, needs=needs[:1] + ["c18:queue_spans_midnight"])
    fsx(c, FIFO + ({"fleets": True},), ("hivemc.bundles", "c18", {}), K=4 if quick else 5, H=9 if quick else 11, needs=needs[:1])
    # a queued vehicle whose idle draw empties it to exactly 0.0 while it waits; both plug types taken from the start (two queues at once)
    fsx(c, FIFO + ({"drain": True},), ("hivemc.bundles", "c18", {}), K=4 if quick else 5, H=9 if quick else 11, needs=needs[:1])
    fsx(c, FIFO + ({"plugs": ["DCFC", "LEVEL_2"], "l2_busy": True},), ("hivemc.bundles", "c18", {}), K=4, H=6 if quick else 8, needs=needs[:1])
    # a human driver in the queue whose shift ends during the run (his own go-home logic then asks for a dispatch to the station he
    # is queueing at); plug-ins through instructions the LIBRARY generated (drivers) are judged, only the scripted controller's are not
    for k in ((4,) if quick else (2, 3, 4)):
        fsx(c, FIFO + ({"human": k},), ("hivemc.bundles", "c18", {}), K=3 if quick else 5, H=7 if quick else 10, needs=needs[:1])
        # ... and the same driver when his home base stands on the station's cell and is served by that station (he then asks to
        # charge "at home", i.e. through the base, on the plug the queue is waiting for)
        fsx(c, FIFO + ({"human": k, "home_at_station": True},), ("hivemc.bundles", "c18", {}), K=3 if quick else 5, H=7 if quick else 10, needs=needs[:1])
    # a vehicle that is still full when it arrives at the busy station; an initial layout at time 0 with a vehicle queued since t = 0
    fsx(c, FIFO + ({"full_v1": True},), ("hivemc.bundles", "c18", {}), K=4 if quick else 5, H=9 if quick else 11, needs=needs[:1])
    # a vehicle that joins the queue at 85 % (above the level at which its own driver unplugs it again, below full)
    fsx(c, FIFO + ({"high_soc": True},), ("hivemc.bundles", "c18", {}), K=4 if quick else 5, H=9 if quick else 11, needs=needs[:1])
    fsx(c, FIFO + ({"t0": True},), ("hivemc.bundles", "c18", {}), K=3 if quick else 5, H=9 if quick else 11,
        needs=needs[:1] + ["default:ChargingStation>Idle"])
    bisim(c, FIFO + ({"pairs": False},), K=2, H=4 if quick else 5)
    return c.finish()


def _c19_linear(args):
    from .w_log import linear_cross_check

    return linear_cross_check(*args)


def c19() -> int:
    c = Check("C19", "explicit-state BFS of the real step function with the real file-writing handlers installed; event.log lines parsed back after every transition")
    c.assumptions += ["per-transition agreement between log lines and state deltas; whole-run sums follow by induction over paths",
                      "Reporter + EventfulHandler + StatsHandler + VehicleChargeEventsHandler installed as load_simulation/load_scenario do; output on tmpfs"]
    quick = tier() == "quick"
    needs = ["c19:move", "c19:charge", "c19:station_load_nonzero", "c19:pickup", "c19:dropoff"]
    fsx(c, ("hivemc.w_log", "make_res", {"variant": "core", "gas": True, "prices": True, "mechs": ("thirsty", "small", "ice")}),
        ("hivemc.bundles", "c19", {}), K=2 if quick else 3, H=7 if quick else 9, needs=needs)
    # a selective log (log_sim_config keeps the station loads and the request events, not the per-vehicle move / charge events)
    fsx(c, ("hivemc.w_log", "make_res", {"variant": "core", "gas": True, "prices": True, "mechs": ("thirsty", "small", "ice"), "name": "W-res/log/selective",
                                         "log_only": ["station_load_event", "add_request_event", "pickup_request_event", "dropoff_request_event", "cancel_request_event"]}),
        ("hivemc.bundles", "c19", {}), K=2, H=6 if quick else 8, needs=["c19:station_load_nonzero"])
    fsx(c, ("hivemc.w_log", "make_req", {}), ("hivemc.bundles", "c19", {}), K=3 if quick else 4, H=8 if quick else 10, needs=["c19:pickup", "c19:dropoff"])
    fsx(c, ("hivemc.w_log", "make_req", {"requests": ["p0", "p1", "r2"], "name": "W-req/pooling/log", "prestart": ("p0", "p1")}), ("hivemc.bundles", "c19", {}), K=2 if quick else 3, H=8 if quick else 10, needs=["c19:pickup"])
    # a run that starts two minutes before midnight: requests issued before it are picked up and dropped off after it
    fsx(c, ("hivemc.w_log", "make_req", {"midnight": True, "name": "W-req/midnight/log"}), ("hivemc.bundles", "c19", {}), K=3, H=6 if quick else 9, needs=["c19:pickup", "c19:dropoff"])
    auto_worlds(c, "c19", quick, make=("hivemc.w_log", "make_auto"), extra={"prices": True}, needs=["c19:pickup", "c19:dropoff", "c19:charge"])
    # end-to-end cross-check: scenarios loaded by load_scenario (handlers installed by the library), run linearly, whole-run sums
    from .enumrun import pmap
    from .report import Finding
    from .w_log import linear_cross_check

    runs = [("S1", 25), ("S2", 30), ("S3", 35), ("S6", 120 if quick else 360)] + ([] if quick else [("S5", 360)])
    for (sc, n), (stats, bad) in zip(runs, pmap(_c19_linear, runs)):
        c.coverage.setdefault("linear_cross_checks", []).append(dict(stats, scenario=sc, steps=n))
        for clause, msg in bad[:3]:
            c.add(Finding("C19", (clause, "linear", sc), msg, {"engine": "w_log", "scenario": sc, "steps": n}))
        if not stats.get("lines"):
            c.vacuous.append(f"linear:{sc}: empty event.log")
    return c.finish()


def c20() -> int:
    from .enum_shift import c20 as run

    return run()


CHECKS = {"C06": c06, "C10": c10, "C09": c09, "C16": c16, "C18": c18, "C19": c19, "C05": c05, "C15": c15, "C01": c01, "C20": c20, "C08": c08, "C12": c12, "C11": c11, "C04": c04, "C13": c13, "C14": c14, "C17": c17, "C02": c02, "C03": c03, "C07": c07}
