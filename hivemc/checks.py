"""one function per property: builds a Check, runs its explorations, returns the exit status"""
from __future__ import annotations

from . import tier
from .fsxcheck import run as fsx
from .report import Check, log

RES = ("hivemc.w_res", "make")


def c02() -> int:
    c = Check("C02", "explicit-state BFS of the real step function (FSX), deviation-bounded")
    c.assumptions += [
        "exhaustive only inside the closed worlds and bounds listed under coverage.explorations",
        "canonical-key abstraction of DESIGN.md 2.3 (static audit + index guard)",
    ]
    quick = tier() == "quick"
    needs = [
        "default:DispatchStation>ChargeQueueing",
        "default:ChargeQueueing>ChargingStation",
        "default:ChargingStation>Idle",
        "default:ChargingBase>ReserveBase",
        "default:DispatchBase>ReserveBase",
        "default:DispatchBase>Idle",
    ]
    fsx(c, RES + ({"variant": "core"},), ("hivemc.bundles", "c02", {}), K=3 if quick else 4, H=7 if quick else 9, needs=needs)
    return c.finish()


def c07() -> int:
    c = Check("C07", "explicit-state BFS of the real step function (FSX), deviation-bounded")
    c.assumptions += [
        "exhaustive only inside the closed worlds and bounds listed under coverage.explorations",
        "canonical-key abstraction of DESIGN.md 2.3",
    ]
    quick = tier() == "quick"
    needs = ["c07:pickup", "c07:dropoff", "instr:Idle:ChargeBase:ChargingBase", "instr:Idle:ReserveBase:Idle",
             "instr:Idle:ChargeStation:Idle"]
    fsx(c, RES + ({"variant": "full" if not quick else "core"},), ("hivemc.bundles", "c07", {}), K=2 if quick else 3, H=7 if quick else 9, needs=needs)
    return c.finish()


REQ = ("hivemc.w_req", "make")


def c03() -> int:
    c = Check("C03", "explicit-state BFS of the real step function (FSX) with a per-request life-cycle history variable")
    c.assumptions += [
        "exhaustive only inside the closed worlds and bounds listed under coverage.explorations",
        "non-pooling requests (allows_pooling=False), as in every shipped input",
    ]
    quick = tier() == "quick"
    needs = ["c03:pickup", "c03:cancel", "c03:cancel_while_vehicle_en_route", "c03:dropoff_later_step",
             "c03:pickup_and_dropoff_same_step", "c03:stranded", "c03:instruction_to_vehicle_with_passengers",
             "default:DispatchTrip>Idle"]
    fsx(c, REQ + ({},), ("hivemc.bundles", "c03", {}), K=3 if quick else 4, H=8 if quick else 10, needs=needs)
    fsx(c, REQ + ({"dispatcher": True},), ("hivemc.bundles", "c03", {}), K=3 if quick else 4, H=8 if quick else 10, needs=needs[:4])
    return c.finish()


def c17() -> int:
    c = Check("C17", "explicit-state BFS of the real step function (FSX), deviation-bounded")
    c.assumptions += ["exhaustive only inside the closed worlds and bounds listed under coverage.explorations"]
    quick = tier() == "quick"
    K, H = (3, 8) if quick else (5, 10)
    needs = ["c17:dispatchtrip_state", "default:DispatchTrip>OutOfService", "default:DispatchTrip>ServicingTrip",
             "instr:DispatchTrip:DispatchStation:DispatchStation", "instr:DispatchTrip:Idle:Idle",
             "instr:DispatchTrip:DispatchTrip:DispatchTrip", "c03:cancel_while_vehicle_en_route"]
    fsx(c, REQ + ({},), ("hivemc.bundles", "c17", {}), K=K, H=H, needs=needs[:-1])
    fsx(c, REQ + ({"dispatcher": True},), ("hivemc.bundles", "c17", {}), K=K, H=H)
    fsx(c, REQ + ({"dispatcher": True, "controller": False, "cancel": 600},), ("hivemc.bundles", "c17_builtin", {}), K=3, H=H + 6,
        needs=["c17:vehicle_under_way_at_step_boundary", "c17:open_request_offered"])
    fsx(c, REQ + ({"dispatcher": True, "controller": False, "fleets": ("f1", "f2"), "cancel": 600, "name": "W-req/dispatcher-only/2fleets"},),
        ("hivemc.bundles", "c17_builtin", {}), K=3, H=H + 6)
    return c.finish()


def c04() -> int:
    from .enum_energy import c04_enum

    c = Check("C04", "bounded exhaustive operation sequences through the real mechatronics vs a ledger oracle (ENUM) + per-transition energy monitor in FSX")
    c.assumptions += ["ENUM: alphabet and depth listed in coverage.rule", "FSX: world W-res/energy with one BEV with idle draw, one small-battery BEV and one ICE vehicle"]
    c04_enum(c)
    quick = tier() == "quick"
    needs = ["c04:moved:ICE", "c04:moved:BEV", "c04:charged:BEV:ChargingStation", "c04:charged:BEV:ChargingBase", "c04:charged:ICE:ChargingStation",
             "c04:idled:BEV:Idle", "c04:idled:ICE:Idle", "c04:idled:BEV:ChargeQueueing", "c04:ran_dry:BEV:DispatchStation|c04:ran_dry:BEV:DispatchBase|c04:ran_dry:BEV:Repositioning"]
    fsx(c, RES + ({"variant": "core", "gas": True, "mechs": ("thirsty", "tiny_thirsty", "ice"), "name": "W-res/energy"},),
        ("hivemc.bundles", "c04", {}), K=2 if quick else 3, H=7 if quick else 9, needs=needs)
    return c.finish()


def c05() -> int:
    c = Check("C05", "explicit-state BFS of the real step function (FSX) with a per-transition conservation monitor (sums follow by induction over paths)")
    c.assumptions += ["exhaustive only inside the closed worlds and bounds listed under coverage.explorations",
                      "additive ledgers are decided per transition: if every explored transition preserves delta(accumulator) = sum(events of the step), every explored path preserves the sums"]
    quick = tier() == "quick"
    needs = ["c05:charge:ChargingStation:DCFC", "c05:charge:ChargingStation:LEVEL_2", "c05:charge:ChargingBase:LEVEL_2",
             "c05:charge:ChargingStation:GAS_PUMP", "c05:charge_at_nonzero_tariff", "env:P", "c05:fare"]
    fsx(c, RES + ({"variant": "core", "gas": True, "prices": True, "mechs": ("thirsty", "small", "ice"), "name": "W-res/money"},),
        ("hivemc.bundles", "c05", {}), K=2 if quick else 3, H=7 if quick else 9, needs=needs)
    fsx(c, REQ + ({},), ("hivemc.bundles", "c05", {}), K=3 if quick else 4, H=8 if quick else 10, needs=["c05:fare"])
    return c.finish()


def c08() -> int:
    from .enum_index import c08_enum

    c = Check("C08", "explicit-state BFS to closure over SimulationState values with the index operations as transitions (ENUM) + index monitor on every FSX state")
    closed = c08_enum(c)
    c.exhaustive = bool(closed)
    quick = tier() == "quick"
    fsx(c, RES + ({"variant": "core"},), ("hivemc.bundles", "c08", {}), K=2 if quick else 3, H=7 if quick else 9,
        needs=["default:DispatchTrip>ServicingTrip", "default:ServicingTrip>Idle", "env:R"])
    fsx(c, REQ + ({},), ("hivemc.bundles", "c08", {}), K=3 if quick else 4, H=8 if quick else 10)
    c.assumptions += ["re-adding an id that is already present is outside the alphabet (the API gives it no meaning)"]
    return c.finish()


def c11() -> int:
    from .enum_timed import c11 as run

    return run()


def c12() -> int:
    from .enum_dispatch import c12 as run

    return run()


def c13() -> int:
    from .enum_routes import c13 as run

    return run()


def c14() -> int:
    from .enum_routes import c14 as run

    return run()


def c01() -> int:
    from .ord import c01 as run

    return run()


def c15() -> int:
    from .comp import c15 as run

    return run()


def c19() -> int:
    c = Check("C19", "explicit-state BFS of the real step function with the real file-writing handlers installed; event.log lines parsed back after every transition")
    c.assumptions += ["per-transition agreement between log lines and state deltas; whole-run sums follow by induction over paths",
                      "Reporter + EventfulHandler + StatsHandler + VehicleChargeEventsHandler installed as load_simulation/load_scenario do; output on tmpfs"]
    quick = tier() == "quick"
    needs = ["c19:move", "c19:charge", "c19:station_load_nonzero", "c19:pickup", "c19:dropoff"]
    fsx(c, ("hivemc.w_log", "make_res", {"variant": "core", "gas": True, "prices": True, "mechs": ("thirsty", "small", "ice")}),
        ("hivemc.bundles", "c19", {}), K=2 if quick else 3, H=7 if quick else 9, needs=needs)
    fsx(c, ("hivemc.w_log", "make_req", {}), ("hivemc.bundles", "c19", {}), K=3 if quick else 4, H=8 if quick else 10, needs=["c19:pickup", "c19:dropoff"])
    return c.finish()


def c20() -> int:
    from .enum_shift import c20 as run

    return run()


CHECKS = {"C19": c19, "C05": c05, "C15": c15, "C01": c01, "C20": c20, "C08": c08, "C12": c12, "C11": c11, "C04": c04, "C13": c13, "C14": c14, "C17": c17, "C02": c02, "C03": c03, "C07": c07}
