"""one function per property: builds a Check, runs its explorations, returns the exit status"""
from __future__ import annotations

from . import tier
from .fsxcheck import run as fsx
from .report import Check, log

RES = ("hivemc.w_res", "make")


def c02() -> int:
    c = Check("C02", "explicit-state BFS of the real step function (FSX), deviation-bounded")
    c.assumptions += [
        "exhaustive only inside the closed worlds and bounds listed under coverage.explorations",
        "canonical-key abstraction of DESIGN.md 2.3 (static audit + index guard)",
    ]
    quick = tier() == "quick"
    needs = [
        "default:DispatchStation>ChargeQueueing",
        "default:ChargeQueueing>ChargingStation",
        "default:ChargingStation>Idle",
        "default:ChargingBase>ReserveBase",
        "default:DispatchBase>ReserveBase",
        "default:DispatchBase>Idle",
    ]
    fsx(c, RES + ({"variant": "core"},), ("hivemc.bundles", "c02", {}), K=3 if quick else 4, H=7 if quick else 9, needs=needs)
    return c.finish()


def c07() -> int:
    c = Check("C07", "explicit-state BFS of the real step function (FSX), deviation-bounded")
    c.assumptions += [
        "exhaustive only inside the closed worlds and bounds listed under coverage.explorations",
        "canonical-key abstraction of DESIGN.md 2.3",
    ]
    quick = tier() == "quick"
    needs = ["c07:pickup", "c07:dropoff", "instr:Idle:ChargeBase:ChargingBase", "instr:Idle:ReserveBase:Idle",
             "instr:Idle:ChargeStation:Idle"]
    fsx(c, RES + ({"variant": "full" if not quick else "core"},), ("hivemc.bundles", "c07", {}), K=2 if quick else 3, H=7 if quick else 9, needs=needs)
    return c.finish()


CHECKS = {"C02": c02, "C07": c07}
