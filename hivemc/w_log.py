"""
Worlds whose events go through the REAL reporting stack (C19): Reporter + EventfulHandler writing event.log into a
scratch directory + StatsHandler + VehicleChargeEventsHandler, installed as load_simulation / load_scenario do.
After every transition reporter.flush is called and the lines appended to event.log are read back and parsed.
"""
from __future__ import annotations

import atexit
import json
import os
import shutil
from pathlib import Path

from nrel.hive.reporting.handler.eventful_handler import EventfulHandler
from nrel.hive.reporting.handler.stats_handler import StatsHandler
from nrel.hive.reporting.handler.vehicle_charge_events_handler import VehicleChargeEventsHandler
from nrel.hive.reporting.reporter import Reporter
from nrel.hive.runner.runner_payload import RunnerPayload

from .scen import scratch_dir
from .w_req import ReqWorld
from .w_res import ResWorld


class Reports(list):
    """the step's Report objects, plus what the real handlers made of them"""

    lines: list = []
    raw_lines: list = []
    stats_delta = (0, 0)
    charge_handler_rows = 0
    parse_errors: list = []


def install(world):
    d = scratch_dir("hivemc_c19_")
    atexit.register(shutil.rmtree, d, True)
    world._logdir = d
    rep = Reporter()
    world._eventful = EventfulHandler(world.env.config.global_config, Path(d))
    world._stats = StatsHandler()
    world._charges = VehicleChargeEventsHandler()
    rep.add_handler(world._eventful)
    rep.add_handler(world._stats)
    rep.add_handler(world._charges)
    world.env = world.env.set_reporter(rep)
    world._tail = open(os.path.join(d, "event.log"), "r")


def logged_step(world, sim, events):
    rep = world.env.reporter
    rep.reports = []
    post = world._advance(sim, events)
    reports = Reports(rep.reports)
    before = (world._stats.stats.requests, world._stats.stats.cancelled_requests)
    nrows = len(world._charges.events["vehicle_id"])
    rep.flush(RunnerPayload(post, world.env, None))  # type: ignore
    world._eventful.log_file.flush()
    raw = world._tail.read().splitlines()
    lines, errs = [], []
    for ln in raw:
        try:
            lines.append(json.loads(ln))
        except Exception as e:
            errs.append(f"{type(e).__name__}: {ln[:120]}")
    reports.raw_lines = raw
    reports.lines = lines
    reports.parse_errors = errs
    reports.stats_delta = (world._stats.stats.requests - before[0], world._stats.stats.cancelled_requests - before[1])
    reports.charge_handler_rows = len(world._charges.events["vehicle_id"]) - nrows
    if len(world._charges.events["vehicle_id"]) > 50000:
        world._charges.clear()
    # keep the scratch file small
    if world._tail.tell() > 64 * 1024 * 1024:
        world._eventful.log_file.truncate(0)
        world._eventful.log_file.seek(0)
        world._tail.seek(0)
    return post, reports


class LogResWorld(ResWorld):
    def __init__(self, **kw):
        super().__init__(**kw)
        self.name = kw.get("name") or "W-res/log"
        install(self)

    def step(self, sim, events):
        return logged_step(self, sim, events)


class LogReqWorld(ReqWorld):
    def __init__(self, **kw):
        super().__init__(**kw)
        self.name = kw.get("name") or "W-req/log"
        install(self)

    def step(self, sim, events):
        return logged_step(self, sim, events)


def make_res(**kw):
    return LogResWorld(**kw)


def make_req(**kw):
    return LogReqWorld(**kw)
