"""
Worlds whose events go through the REAL reporting stack (C19): Reporter + EventfulHandler writing event.log into a
scratch directory + StatsHandler + VehicleChargeEventsHandler, installed as load_simulation / load_scenario do.
After every transition reporter.flush is called and the lines appended to event.log are read back and parsed.
"""
from __future__ import annotations

import atexit
import json
import os
import shutil
from pathlib import Path

from nrel.hive.reporting.handler.eventful_handler import EventfulHandler
from nrel.hive.reporting.handler.stats_handler import StatsHandler
from nrel.hive.reporting.handler.vehicle_charge_events_handler import VehicleChargeEventsHandler
from nrel.hive.reporting.reporter import Reporter
from nrel.hive.runner.runner_payload import RunnerPayload

from .scen import scratch_dir
from .w_req import ReqWorld
from .w_res import ResWorld


class Reports(list):
    """the step's Report objects, plus what the real handlers made of them"""

    lines: list = []
    raw_lines: list = []
    stats_delta = (0, 0)
    charge_handler_rows = 0
    parse_errors: list = []


def install(world, log_only=None):
    """log_only: the event types the global configuration selects for event.log (log_sim_config); None = the default (all)"""
    world._log_only = None
    if log_only:
        from nrel.hive.reporting.report_type import ReportType

        keep = frozenset(ReportType.from_string(t) for t in log_only)
        cfg = world.env.config
        world.env = world.env._replace(config=cfg._replace(global_config=cfg.global_config._replace(log_sim_config=keep)))
        world._log_only = frozenset(t.lower() for t in log_only)
    d = scratch_dir("hivemc_c19_")
    atexit.register(shutil.rmtree, d, True)
    world._logdir = d
    rep = Reporter()
    world._eventful = EventfulHandler(world.env.config.global_config, Path(d))
    world._stats = StatsHandler()
    world._charges = VehicleChargeEventsHandler()
    rep.add_handler(world._eventful)
    rep.add_handler(world._stats)
    rep.add_handler(world._charges)
    world.env = world.env.set_reporter(rep)
    world._tail = open(os.path.join(d, "event.log"), "r")


def logged_step(world, sim, events):
    rep = world.env.reporter
    rep.reports = []
    post = world._advance(sim, events)
    reports = Reports(rep.reports)
    before = (world._stats.stats.requests, world._stats.stats.cancelled_requests)
    nrows = len(world._charges.events["vehicle_id"])
    rep.flush(RunnerPayload(post, world.env, None))  # type: ignore
    world._eventful.log_file.flush()
    raw = world._tail.read().splitlines()
    lines, errs = [], []
    for ln in raw:
        try:
            lines.append(json.loads(ln))
        except Exception as e:
            errs.append(f"{type(e).__name__}: {ln[:120]}")
    if world._log_only is not None:
        # a selective log: what is written must be of the selected types only; for the judgement the lines of the unselected types are
        # supplied from the step's own reports (exactly what the log would have held), so that every clause still applies -- in
        # particular the station load, which is computed from the step's charge events whether or not those are selected for the log
        for ln in lines:
            if str(ln.get("report_type", "")).lower() not in world._log_only:
                errs.append(f"UnselectedTypeLogged: {str(ln)[:120]}")
        for r in reports:
            nm = r.report_type.name.lower()
            if nm != "instruction" and nm not in world._log_only:
                lines.append(json.loads(json.dumps(r.as_json(), default=str)))
    reports.raw_lines = raw
    reports.lines = lines
    reports.parse_errors = errs
    reports.stats_delta = (world._stats.stats.requests - before[0], world._stats.stats.cancelled_requests - before[1])
    reports.charge_handler_rows = len(world._charges.events["vehicle_id"]) - nrows
    if len(world._charges.events["vehicle_id"]) > 50000:
        world._charges.clear()
    # keep the scratch file small
    if world._tail.tell() > 64 * 1024 * 1024:
        world._eventful.log_file.truncate(0)
        world._eventful.log_file.seek(0)
        world._tail.seek(0)
    return post, reports


class LogResWorld(ResWorld):
    def __init__(self, **kw):
        log_only = kw.pop("log_only", None)
        super().__init__(**kw)
        self.name = kw.get("name") or "W-res/log"
        install(self, log_only)

    def step(self, sim, events):
        return logged_step(self, sim, events)


class LogReqWorld(ReqWorld):
    def __init__(self, **kw):
        super().__init__(**kw)
        self.name = kw.get("name") or "W-req/log"
        install(self)

    def step(self, sim, events):
        return logged_step(self, sim, events)


from .w_auto import AutoWorld


class LogAutoWorld(AutoWorld):
    def __init__(self, **kw):
        super().__init__(**kw)
        self.name = self.name + "/log"
        install(self)

    def step(self, sim, events):
        return logged_step(self, sim, events)


def make_auto(**kw):
    return LogAutoWorld(**kw)


def make_res(**kw):
    return LogResWorld(**kw)


def make_req(**kw):
    return LogReqWorld(**kw)


# ---------------------------------------------------------------------------------------------------
# end-to-end cross-check: a scenario loaded by load_scenario (handlers installed by the library itself), run linearly


def linear_cross_check(scenario: str, nsteps: int, primer: bool = True):
    """returns (stats dict, list of (clause, message)); whole-run sums of the written event.log vs the final state.
    primer: ANOTHER scenario is loaded, run and closed in this very process first (a notebook, a batch worker, a restarted
    co-simulation): whatever the reporting stack keeps per process then shows in this run's summary"""
    if primer:
        linear_cross_check("S1", 12, primer=False)
    import glob
    import json as _json

    from nrel.hive.app import hive_cosim

    from . import scenarios
    from .scen import load, write_global_config

    d = scratch_dir("hivemc_c19lin_")
    bad = []
    try:
        builder, _ = scenarios.BUILDERS[scenario]
        path = builder(d)
        write_global_config(d, log_events=True, log_stats=True)
        rp = load(path)
        odo0 = {vid: v.distance_traveled_km for vid, v in rp.s.vehicles.items()}
        for _ in range(nsteps):
            rp = hive_cosim.crank(rp, 1).runner_payload
        from .scen import in_dir, quiet_stdout

        with in_dir(d), quiet_stdout():
            hive_cosim.close(rp)
        logs = glob.glob(os.path.join(d, "out", "*", "event.log"))
        if len(logs) != 1:
            return {"lines": 0}, [("no_event_log", f"expected one event.log, found {logs}")]
        lines = []
        for i, ln in enumerate(open(logs[0])):
            try:
                lines.append(_json.loads(ln))
            except Exception as e:
                bad.append(("unparseable_line", f"{scenario}: line {i+1} of event.log: {e}"))
        by = {}
        for ln in lines:
            by.setdefault(ln["report_type"], []).append(ln)
        for vid, v in rp.s.vehicles.items():
            dist = sum(float(m["distance_km"]) for m in by.get("vehicle_move_event", []) if m["vehicle_id"] == vid)
            if abs(dist - (v.distance_traveled_km - odo0[vid])) > 1e-6:
                bad.append(("move_vs_odometer", f"{scenario}: vehicle {vid}: move lines sum to {dist}, odometer {v.distance_traveled_km - odo0[vid]}"))
            en = sum(float(c["energy"]) for c in by.get("vehicle_charge_event", []) if c["vehicle_id"] == vid)
            if abs(en - sum(v.energy_gained.values())) > 1e-6:
                bad.append(("charge_vs_gained", f"{scenario}: vehicle {vid}: charge lines sum to {en}, energy gained {sum(v.energy_gained.values())}"))
        # one block of lines per flush (= per step): the station_load lines come first, then that step's events
        nst0 = len(rp.s.stations)
        blocks, cur, nloads = [], [], 0
        for ln in lines:
            if ln["report_type"] == "station_load_event":
                if nloads >= nst0 or (cur and cur[-1]["report_type"] != "station_load_event"):
                    blocks.append(cur)
                    cur, nloads = [], 0
                nloads += 1
            cur.append(ln)
        if cur:
            blocks.append(cur)
        if len(blocks) != nsteps:
            bad.append(("flush_blocks", f"{scenario}: {len(blocks)} blocks of lines for {nsteps} steps"))
        for bi, blk in enumerate(blocks):
            per, loads = {}, {}
            for ln in blk:
                if ln["report_type"] == "vehicle_charge_event":
                    per[ln["station_id"]] = per.get(ln["station_id"], 0.0) + float(ln["energy"])
                elif ln["report_type"] == "station_load_event":
                    loads[ln["station_id"]] = loads.get(ln["station_id"], 0.0) + float(ln["energy"])
            for sid in set(per) | set(loads):
                if abs(per.get(sid, 0.0) - loads.get(sid, 0.0)) > 1e-6:
                    bad.append(("station_load", f"{scenario}: step #{bi+1}, station {sid}: reported load {loads.get(sid)}, charge lines there sum to {per.get(sid, 0.0)}"))
        nst = len(rp.s.stations)
        if len(by.get("station_load_event", [])) != nst * nsteps:
            bad.append(("station_load_lines", f"{scenario}: {len(by.get('station_load_event', []))} station_load lines for {nst} stations x {nsteps} steps"))
        summ = glob.glob(os.path.join(d, "out", "*", "summary_stats.json"))
        stats = rp.e.reporter.get_summary_stats(rp) or {}
        nadd, ncancel = len(by.get("add_request_event", [])), len(by.get("cancel_request_event", []))
        handler = [h for h in rp.e.reporter.handlers if h.__class__.__name__ == "StatsHandler"]
        if handler:
            if handler[0].stats.requests != nadd or handler[0].stats.cancelled_requests != ncancel:
                bad.append(("summary_counts", f"{scenario}: summary counts ({handler[0].stats.requests}, {handler[0].stats.cancelled_requests}) vs log ({nadd}, {ncancel})"))
        if summ:
            on_disk = _json.load(open(summ[0]))
            if abs(on_disk.get("total_vkt", 0) - stats.get("total_vkt", 0)) > 1e-9:
                bad.append(("summary_file", f"{scenario}: summary_stats.json total_vkt {on_disk.get('total_vkt')} vs {stats.get('total_vkt')}"))
        # resolved requests: one pickup or cancel line each, no request twice
        seen = {}
        for ln in by.get("pickup_request_event", []) + by.get("cancel_request_event", []):
            seen[ln["request_id"]] = seen.get(ln["request_id"], 0) + 1
        for rid, n in seen.items():
            if n != 1:
                bad.append(("resolution_lines", f"{scenario}: request {rid} has {n} pickup/cancel lines"))
        timeout = rp.e.config.sim.request_cancel_time_seconds
        step = rp.e.config.sim.timestep_duration_seconds
        from .monitors import _hms

        for p in by.get("pickup_request_event", []):
            w = _hms(p.get("wait_time_seconds", ""))
            if w is None or not (0 <= w <= timeout + step):
                bad.append(("wait_time_range", f"{scenario}: pickup of {p['request_id']}: wait {p.get('wait_time_seconds')}"))
        # the same scenario once more in this process under the same output name: the library either refuses (the output directory
        # exists) or gives the second run a log of its own -- if it accepts the run, what that run finds in its event.log must account
        # for ITS state, not for two runs
        second = "refused"
        try:
            rp2 = load(path)
        except FileExistsError:
            rp2 = None
        if rp2 is not None:
            second = "accepted"
            odo2 = {vid: v.distance_traveled_km for vid, v in rp2.s.vehicles.items()}
            for _ in range(nsteps):
                rp2 = hive_cosim.crank(rp2, 1).runner_payload
            with in_dir(d), quiet_stdout():
                hive_cosim.close(rp2)
            logs2 = [p2 for p2 in glob.glob(os.path.join(d, "out", "*", "event.log"))]
            newest = max(logs2, key=os.path.getmtime)
            moved = {}
            for ln in open(newest):
                try:
                    j = _json.loads(ln)
                except Exception:
                    continue
                if j.get("report_type") == "vehicle_move_event":
                    moved[j["vehicle_id"]] = moved.get(j["vehicle_id"], 0.0) + float(j["distance_km"])
            for vid, v in rp2.s.vehicles.items():
                if abs(moved.get(vid, 0.0) - (v.distance_traveled_km - odo2[vid])) > 1e-6:
                    bad.append(("move_vs_odometer", f"{scenario}, run a second time under the same output name in one process: vehicle {vid}: the move lines of its event.log sum to {moved.get(vid, 0.0)}, its odometer reads {v.distance_traveled_km - odo2[vid]}"))
                    break
        return {"lines": len(lines), "moves": len(by.get("vehicle_move_event", [])), "charges": len(by.get("vehicle_charge_event", [])),
                "pickups": len(by.get("pickup_request_event", [])), "cancels": ncancel, "adds": nadd, "second_run_same_output_name": second}, bad
    finally:
        shutil.rmtree(d, ignore_errors=True)


def replay(body) -> int:
    rp = body["replay"]
    stats, bad = linear_cross_check(rp["scenario"], rp["steps"])
    print(stats)
    for clause, msg in bad[:10]:
        print(clause, "::", msg)
    if bad:
        print(f"VIOLATION property=C19 replay={body.get('_path')}")
        return 1
    print("not reproduced on this tree")
    return 0
