"""
hivemc -- explicit-state model checking of NREL/hive's real step function.

Importing this package points the interpreter at the repository under test
($VERIF_REPO, default /repo) and silences the library's logging.  Nothing in
here is a model of hive: every transition the engines explore is a call into
the code under $VERIF_REPO.
"""
import logging
import os
import sys
import warnings

REPO = os.environ.get("VERIF_REPO", "/repo")
VERIF = os.path.dirname(os.path.dirname(os.path.abspath(__file__)))

if REPO not in sys.path[:1]:
    sys.path.insert(0, REPO)

warnings.filterwarnings("ignore")
logging.disable(logging.CRITICAL)

import nrel.hive as _hive  # noqa: E402

_hive_file = os.path.realpath(getattr(_hive, "__file__", None) or list(_hive.__path__)[0])
if not _hive_file.startswith(os.path.realpath(REPO) + os.sep):
    raise SystemExit(f"hivemc: nrel.hive was imported from {_hive_file}, not from {REPO} (exit 2)")

# loading the library re-enables the root logger level; keep everything silent
logging.disable(logging.CRITICAL)


def tier() -> str:
    t = os.environ.get("VERIF_TIER", "quick")
    return t if t in ("quick", "thorough") else "quick"


def seed() -> int:
    try:
        return int(os.environ.get("VERIF_SEED", "0"))
    except ValueError:
        return 0


def ncpu() -> int:
    try:
        n = int(os.environ.get("VERIF_WORKERS", "0"))
    except ValueError:
        n = 0
    if n > 0:
        return n
    return max(1, min(16, os.cpu_count() or 1))
