"""
FSX -- budgeted breadth-first exploration of the real step function (DESIGN.md section 2).

node      = (history, budget left); identity for state matching = (canonical key, history variables)
transition= one call of world.step (the real CancelRequests / request admission / StepSimulation.update)
deviation = one controller instruction or one environment event; at most `K` per run, at most 2 per step
Every expanded node is first rebuilt from its history by replaying it through the real step function and its
key must equal the key recorded when it was discovered (else: uncontrolled nondeterminism, exit 2).
"""
from __future__ import annotations

import importlib
import itertools
import multiprocessing as mp
import os
import sys
import time
import traceback
from collections import Counter
from typing import Any, Callable, Dict, List, Optional, Sequence, Tuple

from . import ncpu
from .canon import key_hash


class HarnessError(Exception):
    pass


class Violation:
    __slots__ = ("prop", "clause", "sig", "msg", "history", "world")

    def __init__(self, prop, clause, sig, msg):
        self.prop = prop
        self.clause = clause
        self.sig = tuple(sig)
        self.msg = msg
        self.history = None
        self.world = None

    def signature(self) -> Tuple:
        return (self.prop, self.clause) + self.sig

    def to_json(self):
        return {
            "property": self.prop,
            "clause": self.clause,
            "signature": list(self.signature()),
            "message": self.msg,
            "world": self.world,
            "history": self.history,
        }


class Ctx:
    """what a monitor sees of one transition"""

    __slots__ = ("world", "pre", "events", "post", "reports", "hv_pre", "hv_post", "cov", "_cache")

    def __init__(self, world, pre, events, post, reports, hv_pre, hv_post, cov):
        self.world = world
        self.pre = pre
        self.events = events
        self.post = post
        self.reports = reports
        self.hv_pre = hv_pre
        self.hv_post = hv_post
        self.cov = cov
        self._cache = {}

    @property
    def env(self):
        return self.world.env

    def instructed(self) -> Dict[str, dict]:
        """vehicle id -> the instruction report that was applied to it in this step (from any generator/driver)"""
        c = self._cache.get("instructed")
        if c is None:
            c = {}
            for r in self.reports:
                if r.report_type.name == "INSTRUCTION":
                    c[r.report["vehicle_id"]] = r.report
            self._cache["instructed"] = c
        return c

    def of_type(self, name: str):
        return [r.report for r in self.reports if r.report_type.name == name]


# ---------------------------------------------------------------------------------------------------
# worker side

_W: Dict[str, Any] = {}


def _load(spec):
    mod, fn, kwargs = spec
    m = importlib.import_module(mod)
    return getattr(m, fn)(**kwargs)


def _init_worker(world_spec, monitor_spec):
    import logging

    logging.disable(logging.CRITICAL)
    _W["world"] = _load(world_spec)
    _W["monitors"] = _load(monitor_spec)
    _W["stack"] = []  # [(history prefix tuple, sim, hv)]


def _exception_violation(prop: str, exc: BaseException) -> Violation:
    tb = traceback.extract_tb(exc.__traceback__)
    frame = None
    for fr in tb:
        if "/nrel/hive/" in fr.filename:
            frame = fr
    where = f"{os.path.basename(frame.filename)}:{frame.name}" if frame else "harness"
    if frame is None:
        raise exc
    return Violation(
        prop,
        "exception",
        (type(exc).__name__, where),
        f"{type(exc).__name__}: {exc} (raised in {where}); the run would have aborted",
    )


def _rebuild(world, history):
    """replay `history`, reusing the longest common prefix with the previously rebuilt node"""
    stack = _W["stack"]
    n = 1
    while n < len(stack) and n < len(history) and stack[n][0] == history[n]:
        n += 1
    if not stack or stack[0][0] != history[0]:
        sim = world.starts[history[0]]
        stack[:] = [(history[0], sim, world.hv0_for(history[0]))]
        n = 1
    del stack[n:]
    _, sim, hv = stack[-1]
    world._replaying = True
    for evs in history[n:]:
        post, reports = world.step(sim, evs)
        hv = world.hv_next(hv, sim, evs, post, reports)
        sim = post
        stack.append((evs, sim, hv))
    world._replaying = False
    return sim, hv


def choices(world, sim, hv, budget: int) -> List[Tuple[tuple, int]]:
    """(events, cost) for the default transition and every deviation set that fits the budget"""
    out: List[Tuple[tuple, int]] = [((), 0)]
    if budget <= 0:
        return out
    menu = world.menu(sim, hv)
    for e in menu:
        out.append(((e,), 1))
    if budget >= 2 and world.pairs:
        for a, b in itertools.combinations(menu, 2):
            if world.slot(a) != world.slot(b):
                out.append(((a, b), 2))
    return out


def _expand_chunk(chunk):
    """chunk: list of (history, budget, expected key hash or None) -> list of results"""
    world = _W["world"]
    monitors = _W["monitors"]
    prop = monitors.prop
    results = []
    for history, budget, want in chunk:
        sim, hv = _rebuild(world, history)
        kh = key_hash((world.key(sim), hv_canon(hv)))
        if want is not None and kh != want:
            raise HarnessError(
                f"replay of {history!r} gave a different state key: uncontrolled nondeterminism"
            )
        succ = []
        cov: Counter = Counter()
        for evs, cost in choices(world, sim, hv, budget):
            try:
                post, reports = world.step(sim, evs)
            except HarnessError:
                raise
            except Exception as exc:  # escaped from repository code: the run would have aborted
                v = _exception_violation(prop, exc)
                succ.append((evs, None, budget - cost, [v], None))
                continue
            hv2 = world.hv_next(hv, sim, evs, post, reports)
            ctx = Ctx(world, sim, evs, post, reports, hv, hv2, cov)
            viols: List[Violation] = []
            for m in monitors.transition:
                try:
                    viols.extend(m(ctx))
                except HarnessError:
                    raise
                except Exception as exc:
                    try:
                        viols.append(_exception_violation(prop, exc))
                    except Exception:
                        raise HarnessError(
                            f"monitor {getattr(m, '__name__', m)} crashed on {history!r} + {evs!r}: "
                            + "".join(traceback.format_exception(exc))
                        )
            kh2 = key_hash((world.key(post), hv_canon(hv2)))
            succ.append((evs, kh2, budget - cost, viols, monitors.outcome(ctx) if monitors.outcome else None))
        results.append((history, kh, succ, cov))
    return results


def hv_canon(hv):
    if isinstance(hv, (frozenset, set)):
        return ("set",) + tuple(sorted((hv_canon(x) for x in hv), key=repr))
    if isinstance(hv, dict):
        return ("map",) + tuple(sorted(((hv_canon(k), hv_canon(v)) for k, v in hv.items()), key=repr))
    if isinstance(hv, tuple):
        return tuple(hv_canon(x) for x in hv)
    return hv


# ---------------------------------------------------------------------------------------------------
# master side


class Result:
    def __init__(self):
        self.states = 0
        self.transitions = 0
        self.replays = 0
        self.max_depth = 0
        self.closed = False
        self.K = 0
        self.H = 0
        self.world = ""
        self.violations: Dict[Tuple, Violation] = {}
        self.violation_count = 0
        self.pruned_error_states = 0
        self.cov: Counter = Counter()
        self.outcomes: set = set()
        self.samples: List[Any] = []
        self.wall = 0.0
        self.level_sizes: List[int] = []

    def summary(self) -> dict:
        return {
            "world": self.world,
            "K": self.K,
            "H": self.H,
            "states": self.states,
            "transitions": self.transitions,
            "replays_validated": self.replays,
            "max_depth": self.max_depth,
            "frontier_emptied_before_horizon": self.closed,
            "level_sizes": self.level_sizes,
            "distinct_outcomes": len(self.outcomes),
            "violating_transitions": self.violation_count,
            "distinct_violation_signatures": len(self.violations),
            "wall_s": round(self.wall, 2),
        }


class Monitors:
    """a bundle of monitors for one property"""

    def __init__(self, prop: str, transition: Sequence[Callable], initial: Sequence[Callable] = (), outcome=None):
        self.prop = prop
        self.transition = list(transition)
        self.initial = list(initial)
        self.outcome = outcome


def explore(
    world_spec,
    monitor_spec,
    K: int,
    H: int,
    workers: Optional[int] = None,
    max_states: Optional[int] = None,
    seed: int = 0,
    log=None,
    deadline: Optional[float] = None,
) -> Result:
    t0 = time.time()
    workers = workers or ncpu()
    from .primer import prime_process

    prime_process()  # before the workers are forked
    world = _load(world_spec)
    monitors: Monitors = _load(monitor_spec)
    res = Result()
    res.K, res.H, res.world = K, H, world.name

    visited: Dict[bytes, int] = {}
    frontier: List[Tuple[tuple, int, bytes]] = []
    for label in sorted(world.starts):
        sim = world.starts[label]
        hv = world.hv0_for(label)
        for m in monitors.initial:
            for v in m(world, sim):
                v.history = [label]
                v.world = world.name
                res.violations.setdefault(v.signature(), v)
                res.violation_count += 1
        kh = key_hash((world.key(sim), hv_canon(hv)))
        if kh not in visited:
            visited[kh] = K
            frontier.append(((label,), K, kh))

    ctxm = mp.get_context("fork")
    pool = None
    if workers > 1:
        pool = ctxm.Pool(workers, initializer=_init_worker, initargs=(world_spec, monitor_spec))
    else:
        _init_worker(world_spec, monitor_spec)
    capped = False
    try:
        for depth in range(H):
            if not frontier:
                res.closed = True
                break
            res.level_sizes.append(len(frontier))
            frontier.sort(key=lambda n: repr(n[0]))
            # rotate the visiting order with the seed (never changes what is enumerated)
            if seed and len(frontier) > 1:
                r = seed % len(frontier)
                frontier = frontier[r:] + frontier[:r]
            # contiguous chunks (shared history prefixes) of roughly equal *cost* (a node with budget >= 2
            # expands hundreds of deviation pairs, one with budget 0 a single default transition)
            m = max(1, len(world.controller_menu) + len(world.request_specs) + len(world.price_rows))
            cost_of = {0: 1.0, 1: 1.0 + m}
            big = 1.0 + m + (m * m / 2.0 if world.pairs else 0.0)
            costs = [cost_of.get(n[1], big) + 3.0 for n in frontier]
            target = max(sum(costs) / (workers * 6), 1.0)
            chunks, cur, acc = [], [], 0.0
            for node, cst in zip(frontier, costs):
                cur.append(node)
                acc += cst
                if acc >= target:
                    chunks.append(cur)
                    cur, acc = [], 0.0
            if cur:
                chunks.append(cur)
            if pool is not None:
                results_iter = pool.imap_unordered(_expand_chunk, chunks)
            else:
                results_iter = map(_expand_chunk, chunks)
            nxt: Dict[bytes, Tuple[tuple, int, bytes]] = {}
            for chunk_result in results_iter:
                for history, kh, succ, cov in chunk_result:
                    if len(history) > 1:
                        res.replays += 1
                    res.cov.update(cov)
                    for evs, kh2, b2, viols, outcome in succ:
                        res.transitions += 1
                        if outcome is not None:
                            res.outcomes.add(outcome)
                        h2 = history + (evs,)
                        if viols:
                            res.violation_count += len(viols)
                            res.pruned_error_states += 1
                            for v in viols:
                                sig = v.signature()
                                old = res.violations.get(sig)
                                if old is None or _hist_cost(h2) < _hist_cost(old.history):
                                    v.history = h2
                                    v.world = world.name
                                    res.violations[sig] = v
                            continue  # error states are not expanded
                        if kh2 is None:
                            continue
                        seen = visited.get(kh2)
                        if seen is not None and seen >= b2:
                            continue
                        visited[kh2] = b2
                        prev = nxt.get(kh2)
                        if prev is None or prev[1] < b2:
                            nxt[kh2] = (h2, b2, kh2)
                        if len(res.samples) < 6 and evs:
                            res.samples.append(h2)
            res.max_depth = depth + 1
            frontier = list(nxt.values())
            if log:
                log(
                    f"  [{world.name}] depth {depth+1}/{H}: states={len(visited)} transitions={res.transitions} "
                    f"frontier={len(frontier)} violations={len(res.violations)} t={time.time()-t0:.1f}s"
                )
            if max_states and len(visited) > max_states:
                capped = True
                break
            if deadline and time.time() > deadline:
                capped = True
                break
    finally:
        if pool is not None:
            pool.terminate()
            pool.join()
    res.states = len(visited)
    res.wall = time.time() - t0
    if capped:
        res.cov["CAPPED"] += 1
    return res


def _hist_cost(h) -> Tuple[int, int]:
    if h is None:
        return (10**9, 10**9)
    return (sum(len(e) for e in h[1:]), len(h))
