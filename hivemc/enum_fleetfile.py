"""
C10, input level: memberships as the scenario's FILES declare them.  A two-fleet scenario is written as real files -- vehicles,
stations, bases and requests CSVs plus the fleets YAML -- under every spelling of the four kinds of ids (names such as "tnc_1",
"va", "sa", "ba", or plain numbers such as 1, 11, 101, 7: YAML reads a bare number as an integer, the CSV readers read text),
loaded through load_scenario and run with the built-in generators.  Geometry makes the WRONG fleet's station / base the nearest
one for every vehicle, so that a membership lost or mistyped on the way in shows as behaviour.

Oracle, per step, against the memberships the files declare (compared as text, which is what every CSV column is): a vehicle
travelling to, queueing at, charging at or parked at a station / base, or travelling to / serving a request, belongs to a fleet
that the target belongs to.
"""
from __future__ import annotations

import itertools
import os
import shutil
from typing import Any, Dict, List

from .report import Check, Finding, log
from .scen import load, scratch_dir, write_global_config, write_scenario
from .worlds import sites

SPELL = {
    "fleet": {"names": ("tnc_1", "tnc_2"), "numbers": (1, 2)},
    "vehicle": {"names": ("va", "vb", "vc", "vd"), "numbers": (11, 12, 13, 14)},
    "station": {"names": ("sa", "sb"), "numbers": (101, 202)},
    "base": {"names": ("ba", "bb"), "numbers": (7, 8)},
}
KINDS = ("fleet", "vehicle", "station", "base")
NSTEPS = 14


def build(d: str, spelling: Dict[str, str]) -> Dict[str, Any]:
    S = sites()
    f1, f2 = SPELL["fleet"][spelling["fleet"]]
    va, vb, vc, vd = SPELL["vehicle"][spelling["vehicle"]]
    sa, sb = SPELL["station"][spelling["station"]]
    ba, bb = SPELL["base"][spelling["base"]]
    # va, vc: fleet 1; vb, vd: fleet 2.  va / vb nearly empty (the ChargingFleetManager sends them to a plug at once), vc / vd full
    # (they serve requests, then time out to a base).  For every vehicle the OTHER fleet's station and base are the nearest.
    vehicles = [
        {"id": va, "cell": S["N1"], "soc": 0.03}, {"id": vb, "cell": S["X3"], "soc": 0.03},
        {"id": vc, "cell": S["X3"], "soc": 0.9}, {"id": vd, "cell": S["N1"], "soc": 0.9},
    ]
    stations = [(sa, S["X1"], "DCFC", 1, True), (sb, S["N2"], "DCFC", 1, True)]
    bases = [(ba, S["X2"], None, 2), (bb, S["N3"], None, 2)]
    # one request per fleet next to the other fleet's full vehicle
    requests = [("r1", S["N1"], S["M1"], 30, 1, f1), ("r2", S["X3"], S["M2"], 30, 1, f2)]
    fleets = {f1: {"vehicles": [va, vc], "stations": [sa], "bases": [ba]}, f2: {"vehicles": [vb, vd], "stations": [sb], "bases": [bb]}}
    path = write_scenario(d, "fleetfile", start=0, end=NSTEPS * 60 + 60, step=60, cancel=600, vehicles=vehicles, requests=requests, bases=bases,
                          stations=stations, fleets=fleets, dispatcher={"matching_range_km_threshold": 1, "idle_time_out_seconds": 120, "max_search_radius_km": 20})
    declared = {
        "vehicle": {str(va): {str(f1)}, str(vc): {str(f1)}, str(vb): {str(f2)}, str(vd): {str(f2)}},
        "station": {str(sa): {str(f1)}, str(sb): {str(f2)}},
        "base": {str(ba): {str(f1)}, str(bb): {str(f2)}},
        "request": {"r1": {str(f1)}, "r2": {str(f2)}},
    }
    return {"path": path, "declared": declared}


def run_spelling(spelling: Dict[str, str]):
    from nrel.hive.app import hive_cosim

    d = scratch_dir("hivemc_c10_files_")
    findings, cov = {}, {"steps": 0, "judged": 0, "at_station": 0, "at_base": 0, "on_trip": 0}
    try:
        write_global_config(d)
        b = build(d, spelling)
        dec = b["declared"]
        rp = load(b["path"])
        for k in range(NSTEPS):
            rp = hive_cosim.crank(rp, 1).runner_payload
            cov["steps"] += 1
            for vid, v in rp.s.vehicles.items():
                st = v.vehicle_state
                n = st.__class__.__name__
                mine = dec["vehicle"].get(str(vid), set())
                target = None
                if n in ("DispatchStation", "ChargingStation", "ChargeQueueing"):
                    target = ("station", str(st.station_id))
                elif n in ("DispatchBase", "ReserveBase", "ChargingBase"):
                    target = ("base", str(st.base_id))
                elif n == "DispatchTrip":
                    target = ("request", str(st.request_id))
                elif n == "ServicingTrip":
                    target = ("request", str(st.request.id))
                if target is None:
                    continue
                cov["judged"] += 1
                cov["at_station" if target[0] == "station" else "at_base" if target[0] == "base" else "on_trip"] += 1
                theirs = dec[target[0]].get(target[1], set())
                if theirs and not (theirs & mine):
                    findings.setdefault(
                        ("files_declare_no_access", n, target[0]),
                        f"ids spelled {spelling}: after step {k + 1} vehicle {vid} (fleets file: {sorted(mine)}) is {n} at {target[0]} {target[1]}, which the fleets file gives to {sorted(theirs)} only",
                    )
    finally:
        shutil.rmtree(d, ignore_errors=True)
    return findings, cov


def c10_files(c: Check):
    total = {"steps": 0, "judged": 0, "at_station": 0, "at_base": 0, "on_trip": 0}
    n = 0
    for combo in itertools.product(("names", "numbers"), repeat=len(KINDS)):
        spelling = dict(zip(KINDS, combo))
        n += 1
        try:
            findings, cov = run_spelling(spelling)
        except Exception as e:
            c.add(Finding("C10", ("files_exception", type(e).__name__), f"ids spelled {spelling}: loading / running the scenario raised {type(e).__name__}: {e}", {"engine": "enum_fleetfile", "spelling": spelling}))
            continue
        for k2 in total:
            total[k2] += cov[k2]
        if not (cov["at_station"] and cov["at_base"] and cov["on_trip"]):
            c.vacuous.append(f"fleet files {spelling}: stations / bases / trips reached {cov['at_station']} / {cov['at_base']} / {cov['on_trip']} times")
        for sig, msg in findings.items():
            c.add(Finding("C10", sig, msg, {"engine": "enum_fleetfile", "spelling": spelling}))
    c.coverage["fleet_file_scenarios"] = n
    c.coverage["fleet_file_judged_vehicle_steps"] = total["judged"]
    c.coverage["fleet_file_breakdown"] = total
    c.coverage["states"] = c.coverage.get("states", 0) + total["steps"]
    c.coverage["transitions"] = c.coverage.get("transitions", 0) + total["steps"]
    log(f"  C10 fleet files: {n} spellings of the ids (names / plain numbers per kind), {total['judged']} vehicle-steps judged against the declared memberships ({total})")


def replay(body) -> int:
    rp = body["replay"]
    findings, cov = run_spelling(rp["spelling"])
    print(cov)
    for sig, msg in findings.items():
        print(" | ".join(sig), "::", msg)
    if findings:
        print(f"VIOLATION property=C10 replay={body.get('_path')}")
        return 1
    print("not reproduced on this tree")
    return 0
