"""glue between FSX explorations and the Check/evidence layer"""
from __future__ import annotations

import time
from collections import Counter
from typing import Any, Dict, List, Optional, Sequence

from . import ncpu, seed, tier
from .fsx import Result, explore
from .report import Check, Finding, log
from .worlds import history_to_json


def run(check: Check, world_spec, monitor_spec, K: int, H: int, needs: Sequence[str] = (), label: str = "",
        max_states: Optional[int] = None, iterate: bool = True) -> Result:
    """explore with bounds 0..K iteratively? -- the budgeted BFS with budget K already contains every run with
    fewer deviations (the default transition is always taken), so one exploration at K covers K'=0..K;
    counterexamples are kept per signature with the fewest deviations."""
    import os

    only = os.environ.get("VERIF_ONLY_WORLD")
    if only:
        from .fsx import _load

        wname = label or _load(world_spec).name
        if only not in wname:
            log(f"  [{wname}] skipped (VERIF_ONLY_WORLD={only})")
            check.notes.append(f"{wname}: skipped by VERIF_ONLY_WORLD (debugging aid; never set by registered commands)")
            return None
    res = explore(world_spec, monitor_spec, K=K, H=H, workers=ncpu(), seed=seed(), log=log, max_states=max_states)
    name = label or res.world
    summ = res.summary()
    log(f"  [{name}] K={K} H={H}: states={res.states} transitions={res.transitions} replays={res.replays} "
        f"outcomes={len(res.outcomes)} violating_transitions={res.violation_count} "
        f"signatures={len(res.violations)} wall={res.wall:.1f}s")
    cov = check.coverage
    cov["states"] = cov.get("states", 0) + res.states
    cov["transitions"] = cov.get("transitions", 0) + res.transitions
    cov["traces_validated_against_impl"] = cov.get("traces_validated_against_impl", 0) + res.replays
    cov.setdefault("explorations", []).append(dict(summ, label=name))
    cov.setdefault("samples", [])
    for h in res.samples[:3]:
        cov["samples"].append({"world": name, "history": history_to_json(h)})
    matrix = cov.setdefault("coverage_matrix", {})
    for k, v in sorted(res.cov.items()):
        matrix[f"{name}:{k}"] = matrix.get(f"{name}:{k}", 0) + v
    for cell in needs:
        if not any(res.cov.get(alt, 0) > 0 for alt in cell.split("|")):
            check.vacuous.append(f"{name}:{cell}")
    from .canon import AUDIT_KEPT

    if AUDIT_KEPT and not any("static audit" in n for n in check.notes):
        check.notes.append(f"static audit: new reads of dropped fields found; kept in the state key for this run: {AUDIT_KEPT}")
    cov["abstraction_audit"] = {"fields_put_back_into_key": list(AUDIT_KEPT)}
    if res.cov.get("CAPPED"):
        check.notes.append(f"{name}: exploration capped before the horizon (max_states / deadline); not exhaustive")
        check._fsx_capped = True
    # the bounded space (every run of this world with at most K deviations, at most two per step, within H steps) is finite
    # and was enumerated completely unless a cap was hit; ENUM parts of the same check set their own flag
    if not getattr(check, "_fsx_capped", False) and not getattr(check, "_enum_incomplete", False):
        check.exhaustive = True
    cov["exhaustive_scope"] = "every run of each listed world with at most K deviations (controller instructions / environment events, at most two per step) within H steps, for the K and H listed under explorations; ENUM parts: the alphabets and bounds in coverage.rule"
    for sig, v in res.violations.items():
        check.add(
            Finding(
                v.prop,
                sig[1:],  # without the property id
                f"[{name}] {v.msg}  (history: {history_to_json(v.history)})",
                {
                    "engine": "fsx",
                    "world_spec": list(world_spec),
                    "monitor_spec": list(monitor_spec),
                    "history": history_to_json(v.history),
                    "clause": v.clause,
                },
            )
        )
    return res


def bisim(check: Check, world_spec, K: int, H: int):
    """one-step bisimulation check of the key abstraction for this world (DESIGN.md 2.3); a mismatch is a HARNESS problem
    (the abstraction merged states with different futures), reported as exit 2, never as a property verdict"""
    from .bisim import check as run

    r = run(world_spec, K=K, H=H)
    log(f"  [bisim {r['world']}] K={K} H={H}: {r['concrete_states']} concrete states in {r['abstract_states']} abstract states, "
        f"{r['groups_with_several_members']} merged groups, {r['successor_comparisons']} successor comparisons, {len(r['mismatches'])} mismatches")
    check.coverage.setdefault("abstraction_bisimulation", []).append({k: v for k, v in r.items() if k != "mismatches"})
    if r["mismatches"]:
        raise RuntimeError(f"key abstraction is not a bisimulation in {r['world']}: {r['mismatches'][:2]}")
