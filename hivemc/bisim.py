"""
One-step bisimulation check of the FSX key abstraction (DESIGN.md 2.3): explore WITHOUT the abstraction (state
identity = full canonical form, only UUID tags dropped) to a small depth, group the concrete states by their abstract
key, and for every group with several members check that every event of the menu leads all members to successors with
EQUAL abstract keys and equal abstract observations (activity vector, request set, event multiset without the dropped
accumulators).  Exhaustive within that depth; a mismatch means the abstraction merges states with different futures.
"""
from __future__ import annotations

import itertools
from collections import defaultdict
from typing import Any, Dict, List, Tuple

from .canon import canon, canon_sim_full, digest, key_hash
from .fsx import _load, choices, hv_canon

DROP_EVENT_FIELDS = {"session_id", "sim_time_start", "sim_time_end", "sim_time", "pickup_time", "request_time", "dropoff_time", "departure_time", "cancel_time", "travel_time"}


def abstract_events(reports) -> tuple:
    out = []
    for r in reports:
        # floats are compared the way the state key compares them (10 significant decimals): two histories reaching the same
        # abstract state differ in the last bits of accumulated write-only sums (odometer, energy totals)
        items = tuple(sorted((k, repr(canon(v))) for k, v in r.report.items() if k not in DROP_EVENT_FIELDS))
        out.append((r.report_type.name, items))
    return tuple(sorted(out))


def check(world_spec, K: int, H: int, max_groups: int = 400) -> Dict[str, Any]:
    world = _load(world_spec)
    concrete: Dict[str, Tuple[tuple, int]] = {}
    groups: Dict[bytes, List[tuple]] = defaultdict(list)
    frontier = []
    for label in sorted(world.starts):
        frontier.append(((label,), K))
    depth = 0
    while frontier and depth <= H:
        nxt = []
        for history, budget in frontier:
            sim, hv = world.run(history)
            ck = digest((canon_sim_full(sim._replace(applied_instructions=sim.applied_instructions.__class__())), hv_canon(hv)))
            if ck in concrete and concrete[ck][1] >= budget:
                continue
            concrete[ck] = (history, budget)
            ak = key_hash((world.key(sim), hv_canon(hv)))
            groups[ak].append(history)
            if depth < H:
                for evs, cost in choices(world, sim, hv, min(budget, 1)):
                    nxt.append((history + (evs,), budget - cost))
        frontier = nxt
        depth += 1
    multi = [g for g in groups.values() if len(g) > 1]
    mismatches = []
    compared = 0
    for g in multi[:max_groups]:
        members = g[:3]
        base_sim, base_hv = world.run(members[0])
        menu = [()] + [(e,) for e in world.menu(base_sim, base_hv)]
        ref = {}
        for evs in menu:
            post, rep = world.step(base_sim, evs)
            hv2 = world.hv_next(base_hv, base_sim, evs, post, rep)
            ref[evs] = (key_hash((world.key(post), hv_canon(hv2))), abstract_events(rep))
        for other in members[1:]:
            sim, hv = world.run(other)
            for evs in menu:
                post, rep = world.step(sim, evs)
                hv2 = world.hv_next(hv, sim, evs, post, rep)
                got = (key_hash((world.key(post), hv_canon(hv2))), abstract_events(rep))
                compared += 1
                if got != ref[evs]:
                    what = "successor_key" if got[0] != ref[evs][0] else "events"
                    mismatches.append({"what": what, "a": [list(map(list, e)) for e in members[0][1:]], "b": [list(map(list, e)) for e in other[1:]], "event": [list(e) for e in evs]})
                    if len(mismatches) > 5:
                        break
    return {
        "world": world.name,
        "concrete_states": len(concrete),
        "abstract_states": len(groups),
        "groups_with_several_members": len(multi),
        "successor_comparisons": compared,
        "mismatches": mismatches,
    }
