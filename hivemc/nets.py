"""
Road networks for the ENUM checks, all instantiated through the library's own constructors
(OSMRoadNetwork(graph, ...), HaversineRoadNetwork()).  OSMRoadNetwork.from_file cannot read the shipped
JSON under the installed networkx (KeyError 'edges'), so the Denver graph is read here with edges="links".
"""
from __future__ import annotations

import functools
import json
import math
from typing import Dict, List, Sequence, Tuple

import h3
import networkx as nx
from pkg_resources import resource_filename

from . import VERIF  # noqa: F401

from nrel.hive.model.entity_position import EntityPosition
from nrel.hive.model.roadnetwork.haversine_roadnetwork import HaversineRoadNetwork
from nrel.hive.model.roadnetwork.osm.osm_roadnetwork import OSMRoadNetwork

LAT0, LON0 = 39.7500, -104.9900
KM_PER_DEG_LAT = 111.195
KM_PER_DEG_LON = 111.195 * math.cos(math.radians(LAT0))


def hav_m(lat1, lon1, lat2, lon2) -> float:
    p1, p2 = math.radians(lat1), math.radians(lat2)
    d = math.sin((p2 - p1) / 2) ** 2 + math.cos(p1) * math.cos(p2) * math.sin(math.radians(lon2 - lon1) / 2) ** 2
    return 2 * 6371000.0 * math.asin(math.sqrt(d))


def _graph(nodes: Dict[int, Tuple[float, float]], edges: Sequence[Tuple[int, int, float, float]]) -> nx.MultiDiGraph:
    """nodes: id -> (x_km, y_km) offsets; edges: (u, v, speed_kmph, length_factor)"""
    g = nx.MultiDiGraph()
    for n, (xk, yk) in nodes.items():
        g.add_node(n, x=LON0 + xk / KM_PER_DEG_LON, y=LAT0 + yk / KM_PER_DEG_LAT)
    for u, v, sp, lf in edges:
        a, b = g.nodes[u], g.nodes[v]
        g.add_edge(u, v, length=hav_m(a["y"], a["x"], b["y"], b["x"]) * lf, speed_kmph=float(sp))
    return g


GRID_NODES = {0: (0.0, 0.0), 1: (1.7, 0.0), 2: (1.733, 0.0), 3: (0.0, 0.5), 4: (1.7, 0.5), 5: (1.733, 0.5)}
GRID_STREETS = [(0, 1), (1, 2), (3, 4), (4, 5), (0, 3), (1, 4), (2, 5)]


def grid_graph(speeds: Sequence[float] = (40,) * 7, factors: Sequence[float] = (1,) * 7, oneway: Sequence[int] = ()):
    edges = []
    for i, (u, v) in enumerate(GRID_STREETS):
        edges.append((u, v, speeds[i], factors[i]))
        if i not in oneway:
            edges.append((v, u, speeds[i], factors[i]))
    return _graph(GRID_NODES, edges)


def ring_graph():
    nodes = {0: (0.0, 0.0), 1: (0.8, 0.0), 2: (0.8, 0.6), 3: (0.0, 0.6)}
    edges = []
    for u, v, sp in [(0, 1, 40), (1, 2, 10), (2, 3, 100), (3, 0, 40)]:
        edges += [(u, v, sp, 1.0), (v, u, sp, 1.0)]
    edges += [(0, 2, 100, 1.5), (2, 0, 100, 1.5)]  # chord, declared 1.5x longer than the straight line
    return _graph(nodes, edges)


def deadend_graph():
    """a 3-ring with a dead-end spur that can only be left by a loop at its end"""
    nodes = {0: (0.0, 0.0), 1: (0.5, 0.0), 2: (0.25, 0.4), 3: (1.0, 0.0), 4: (1.2, 0.0), 5: (1.1, 0.15)}
    edges = []
    for u, v in [(0, 1), (1, 2), (2, 0)]:
        edges += [(u, v, 40, 1.0), (v, u, 40, 1.0)]
    edges += [(1, 3, 40, 1.0), (3, 4, 10, 1.0), (4, 5, 10, 1.0), (5, 3, 10, 1.0), (3, 1, 40, 1.0)]
    return _graph(nodes, edges)


@functools.lru_cache(maxsize=None)
def denver_graph_data():
    f = resource_filename("nrel.hive.resources.scenarios.denver_downtown.road_network", "downtown_denver_network.json")
    with open(f) as fh:
        return json.load(fh)


def denver_graph():
    return nx.node_link_graph(json.loads(json.dumps(denver_graph_data())), edges="links")


def reference_graph(spec):
    """the harness's OWN copy of the graph the library is given, with travel times computed here (seconds =
    length_m / 1000 / speed_kmph * 3600 unless the input already carries 'travel_time'); the library never sees this object"""
    kind = spec[0]
    if kind == "grid":
        speeds = spec[1] if len(spec) > 1 else (40,) * 7
        factors = spec[2] if len(spec) > 2 else (1,) * 7
        oneway = spec[3] if len(spec) > 3 else ()
        g = grid_graph(speeds, factors, oneway)
    elif kind == "ring":
        g = ring_graph()
    elif kind == "deadend":
        g = deadend_graph()
    elif kind == "denver":
        g = denver_graph()
    elif kind == "parallel":
        g = parallel_graph()
    elif kind == "connector":
        g = connector_graph()
    elif kind == "unlabelled":
        g = unlabelled_graph()
    else:
        raise ValueError(spec)
    default = float(spec[1]) if kind == "unlabelled" else 40.0  # the network's default speed for streets without a label
    for u, v, d in g.edges(data=True):
        if "travel_time" not in d:
            d["travel_time"] = d["length"] / 1000.0 / float(d.get("speed_kmph", default)) * 3600.0
    return g


def connector_graph():
    """a street with a 5 m connector between two junctions (1-2) and a detour around it (1-4-2): on a coarser location grid
    (resolution 12, cells of ~9 m) both ends of the connector lie in ONE cell"""
    nodes = {0: (0.0, 0.0), 1: (0.3, 0.0), 2: (0.305, 0.0), 3: (0.6, 0.0), 4: (0.3025, 0.1)}
    edges = []
    for u, v, sp in [(0, 1, 40), (1, 2, 10), (2, 3, 40), (1, 4, 40), (4, 2, 40)]:
        edges += [(u, v, sp, 1.0), (v, u, sp, 1.0)]
    return _graph(nodes, edges)


def parallel_graph():
    """a block with PARALLEL streets between the same junctions (a fast arterial as edge key 0, a slow service road as
    key 1, and the other way round) plus detours whose cost lies between the two"""
    nodes = {0: (0.0, 0.0), 1: (0.6, 0.0), 2: (0.6, 0.5), 3: (0.0, 0.5)}
    g = _graph(nodes, [])
    def add(u, v, sp, lf):
        a, b = g.nodes[u], g.nodes[v]
        g.add_edge(u, v, length=hav_m(a["y"], a["x"], b["y"], b["x"]) * lf, speed_kmph=float(sp))
    for u, v in ((0, 1), (1, 0)):
        add(u, v, 100, 1.0)   # key 0: arterial
        add(u, v, 10, 1.3)    # key 1: service road
    for u, v in ((2, 3), (3, 2)):
        add(u, v, 10, 1.3)    # key 0: service road
        add(u, v, 100, 1.0)   # key 1: arterial
    for u, v in ((1, 2), (2, 1), (3, 0), (0, 3)):
        add(u, v, 40, 1.0)
    add(0, 2, 40, 1.0)
    add(2, 0, 40, 1.0)
    return g


def build(spec) -> object:
    """spec: ("haversine",) | ("grid", speeds, factors, oneway) | ("ring",) | ("deadend",) | ("denver",)"""
    kind = spec[0]
    if kind == "haversine":
        return HaversineRoadNetwork(sim_h3_resolution=15)
    if kind == "grid":
        speeds = spec[1] if len(spec) > 1 else (40,) * 7
        factors = spec[2] if len(spec) > 2 else (1,) * 7
        oneway = spec[3] if len(spec) > 3 else ()
        return OSMRoadNetwork(grid_graph(speeds, factors, oneway), sim_h3_resolution=15)
    if kind == "ring":
        return OSMRoadNetwork(ring_graph(), sim_h3_resolution=15)
    if kind == "deadend":
        return OSMRoadNetwork(deadend_graph(), sim_h3_resolution=15)
    if kind == "denver":
        return OSMRoadNetwork(denver_graph(), sim_h3_resolution=15)
    if kind == "parallel":
        return OSMRoadNetwork(parallel_graph(), sim_h3_resolution=15)
    if kind == "connector":
        return OSMRoadNetwork(connector_graph(), sim_h3_resolution=spec[1] if len(spec) > 1 else 12)
    if kind == "unlabelled":
        return OSMRoadNetwork(unlabelled_graph(), sim_h3_resolution=15, default_speed_kmph=float(spec[1]))
    raise ValueError(spec)


def link_positions(rn, link_id: str, which=("start", "second", "middle", "penultimate", "end")) -> List[EntityPosition]:
    link = rn.link_from_link_id(link_id)
    line = h3.h3_line(link.start, link.end)
    idx = {"start": 0, "second": min(1, len(line) - 1), "middle": len(line) // 2, "penultimate": max(len(line) - 2, 0), "end": len(line) - 1}
    seen, out = set(), []
    for w in which:
        c = line[idx[w]]
        if c not in seen:
            seen.add(c)
            out.append(EntityPosition(link_id, c))
    return out


def stopping_positions(rn, link_id: str, parts: int = 7) -> List[EntityPosition]:
    """the cells at which a vehicle driving this link really comes to rest when a time step ends on it: the library's own
    H3Ops.point_along_link (linear in lat/lon), which does not always pick a cell of the link's h3_line (linear on the grid)"""
    from nrel.hive.util.h3_ops import H3Ops

    link = rn.link_from_link_id(link_id)
    lt = link.to_link_traversal()
    total = lt.distance_km / lt.speed_kmph * 3600.0
    seen, out = set(), []
    for k in range(1, parts):
        c = H3Ops.point_along_link(lt, total * k / parts)
        if c not in seen and c not in (link.start, link.end):
            seen.add(c)
            out.append(EntityPosition(link_id, c))
    return out


def unlabelled_graph():
    """a block in which the direct street 0-1 (1 km) carries NO speed label -- it gets the network's default speed -- and a
    labelled detour 0-2-1 (1.2 km at 30 km/h = 144 s) goes round it: which of the two is fastest depends on the default"""
    nodes = {0: (0.0, 0.0), 1: (1.0, 0.0), 2: (0.5, 0.33), 3: (0.5, -0.4)}
    g = _graph(nodes, [])
    def add(u, v, sp, lf=1.0):
        a, b = g.nodes[u], g.nodes[v]
        d = dict(length=hav_m(a["y"], a["x"], b["y"], b["x"]) * lf)
        if sp is not None:
            d["speed_kmph"] = float(sp)
        g.add_edge(u, v, **d)
    for u, v in ((0, 1), (1, 0)):
        add(u, v, None)
    for u, v in ((0, 2), (2, 0), (2, 1), (1, 2)):
        add(u, v, 30)
    for u, v in ((0, 3), (3, 0), (3, 1), (1, 3)):
        add(u, v, 60, 1.2)
    return g


def dijkstra(graph, source) -> Dict[int, float]:
    """plain heap Dijkstra over the 'travel_time' edge attribute (min over parallel edges); independent of networkx's search"""
    import heapq

    dist = {source: 0.0}
    heap = [(0.0, source)]
    done = set()
    while heap:
        d, u = heapq.heappop(heap)
        if u in done:
            continue
        done.add(u)
        for v, keyed in graph[u].items():
            w = min(data["travel_time"] for data in keyed.values())
            nd = d + w
            if nd < dist.get(v, float("inf")):
                dist[v] = nd
                heapq.heappush(heap, (nd, v))
    return dist
