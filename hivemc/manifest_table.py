"""what MANIFEST.json says about each registered check (bin/mkmanifest turns this into the file)"""

_FSX_NOTE = ("Trusted base: the harness (hivemc/fsx.py, worlds, monitors) and the canonical-key abstraction of DESIGN.md 2.3 "
             "(write-only fields dropped, relative times); exhaustive only inside the small closed worlds and the K/H bounds "
             "reported in the evidence file; CPython + h3/immutables as installed.")

TABLE = {
    "C02": dict(engine="FSX", design_ref="DESIGN.md 4/C02", technique="explicit-state model checking of the implementation (budgeted BFS over the real step function)",
                text="Every state reachable in world W-res (3 vehicles, 3 stations with one plug per type, 2 one-stall bases, 1 request) under every placement of at most K controller/environment deviations within H steps satisfies the plug/queue/stall counting invariant; each expanded node is replayed from its history through the real code.",
                note=_FSX_NOTE),
    "C03": dict(engine="FSX", design_ref="DESIGN.md 4/C03", technique="explicit-state model checking of the implementation with a life-cycle history variable per request",
                text="Every run of world W-req (3 vehicles incl. one that runs dry, 3 requests incl. origin=vehicle cell and origin=destination, 1 station) with scripted controller and with the built-in Dispatcher, under every placement of at most K deviations (request releases, dispatch / re-dispatch / interrupt instructions) within H steps: each request is resolved exactly once, fares credited once, no passenger-carrying vehicle diverted.",
                note=_FSX_NOTE),
    "C07": dict(engine="FSX", design_ref="DESIGN.md 4/C07", technique="explicit-state model checking of the implementation (budgeted BFS over the real step function)",
                text="Every reachable state of W-res under at most K deviations within H steps, with remote stations/bases and missing targets in the instruction menu, satisfies activity/location consistency and route start/end/connectivity; pickups and drop-offs happen on the request's origin/destination cell.",
                note=_FSX_NOTE),
    "C17": dict(engine="FSX", design_ref="DESIGN.md 4/C17", technique="explicit-state model checking of the implementation (budgeted BFS over the real step function)",
                text="Every reachable state of W-req (scripted controller; Dispatcher + controller; Dispatcher alone with 0 and 2 fleets) under at most K deviations within H steps: a recorded dispatched vehicle is travelling to that request; under the built-in dispatcher alone at most one vehicle per request and open requests are offered again.",
                note=_FSX_NOTE),
}

NOT_APPLICABLE = {}
