"""what MANIFEST.json says about each registered check (bin/mkmanifest turns this into the file)"""

_FSX_NOTE = ("Trusted base: the harness (hivemc/fsx.py, worlds, monitors) and the canonical-key abstraction of DESIGN.md 2.3 "
             "(write-only fields dropped, relative times); exhaustive only inside the small closed worlds and the K/H bounds "
             "reported in the evidence file; CPython + h3/immutables as installed.")

TABLE = {
    "C02": dict(engine="FSX", design_ref="DESIGN.md 4/C02", technique="explicit-state model checking of the implementation (budgeted BFS over the real step function)",
                text="Every state reachable in world W-res (3 vehicles, 3 stations with one plug per type, 2 one-stall bases, 1 request) under every placement of at most K controller/environment deviations within H steps satisfies the plug/queue/stall counting invariant; each expanded node is replayed from its history through the real code.",
                note=_FSX_NOTE),
    "C03": dict(engine="FSX", design_ref="DESIGN.md 4/C03", technique="explicit-state model checking of the implementation with a life-cycle history variable per request",
                text="Every run of world W-req (3 vehicles incl. one that runs dry, 3 requests incl. origin=vehicle cell and origin=destination, 1 station) with scripted controller and with the built-in Dispatcher, under every placement of at most K deviations (request releases, dispatch / re-dispatch / interrupt instructions) within H steps: each request is resolved exactly once, fares credited once, no passenger-carrying vehicle diverted.",
                note=_FSX_NOTE),
    "C07": dict(engine="FSX", design_ref="DESIGN.md 4/C07", technique="explicit-state model checking of the implementation (budgeted BFS over the real step function)",
                text="Every reachable state of W-res under at most K deviations within H steps, with remote stations/bases and missing targets in the instruction menu, satisfies activity/location consistency and route start/end/connectivity; pickups and drop-offs happen on the request's origin/destination cell.",
                note=_FSX_NOTE),
    "C17": dict(engine="FSX", design_ref="DESIGN.md 4/C17", technique="explicit-state model checking of the implementation (budgeted BFS over the real step function)",
                text="Every reachable state of W-req (scripted controller; Dispatcher + controller; Dispatcher alone with 0 and 2 fleets) under at most K deviations within H steps: a recorded dispatched vehicle is travelling to that request; under the built-in dispatcher alone at most one vehicle per request and open requests are offered again.",
                note=_FSX_NOTE),
}

_ENUM_NOTE = ("Trusted base: the enumerators and reference oracles in hivemc/enum_*.py; exhaustive over the stated alphabets and bounds only "
              "(listed in coverage.rule of the evidence file); CPython + h3/networkx/scipy as installed.")

TABLE.update({
    "C04": dict(engine="ENUM", design_ref="DESIGN.md 4/C04", technique="bounded exhaustive operation-sequence enumeration against a ledger reference model, plus an FSX transition monitor",
                text="All sequences of <= depth drive/idle/charge operations (incl. charge durations shorter than / not a multiple of the 60 s curve slice) for 4 powertrain definitions x 5 initial levels through the real mechatronics, and one-step vehicle-level move/charge/idle for 8 step lengths, satisfy range, ledger, strict-expenditure and plug-limit clauses; the same clauses hold on every transition of an FSX exploration of W-res with a BEV, a small BEV and an ICE vehicle.",
                note=_ENUM_NOTE),
    "C11": dict(engine="ENUM", design_ref="DESIGN.md 4/C11", technique="bounded exhaustive input enumeration (request files, price tables) through the real update functions against a reference scan",
                text="Every sorted request file of <= 3 departure times over a boundary-rich grid (4 step lengths x 3 start times x 4 time-outs x both file-reading modes) and every price table of <= 2-3 rows (by id / by region of 4 resolutions, unknown ids, uninstalled plugs) is admitted / cancelled / applied at exactly the reference step, on exactly the named stations and plugs, without an exception.",
                note=_ENUM_NOTE),
    "C13": dict(engine="ENUM", design_ref="DESIGN.md 4/C13", technique="bounded exhaustive enumeration of position pairs through the real router with a structural oracle",
                text="All ordered pairs of positions (5 cells per link) on four generated strongly connected street graphs and the straight-line network, all 541^2 link pairs plus all same-street position pairs of the shipped Denver graph, and ~12 k snap cells: start/end/joined/known-link/first-last-link clauses and snapping-on-link hold.",
                note=_ENUM_NOTE),
    "C14": dict(engine="ENUM", design_ref="DESIGN.md 4/C14", technique="bounded exhaustive enumeration of node pairs through the real router against an independent Dijkstra",
                text="For all ordered node pairs on 259 generated graphs (every {10,100} km/h assignment to the 7 streets of a 2x3 grid x 2 length patterns, ring+chord, dead-end loop, one-way grid) and all 308^2 node pairs of the shipped Denver graph, the inner part of the route has exactly the Dijkstra-minimal travel time (1e-9).",
                note=_ENUM_NOTE),
})

TABLE.update({
    "C08": dict(engine="ENUM", design_ref="DESIGN.md 4/C08", technique="explicit-state search to closure over SimulationState values with the index operations as transitions, plus an FSX state monitor",
                text="The finite abstract space (2 vehicles, 2 requests, 2 stations, 1 base, each on one of 3 cells or absent: 16 384 states) is explored to closure through the real add/modify/remove/pop operations; after every operation the eight index maps equal the entity-derived ones, forbidden operations are refused, and histories reaching the same entities give identical indexes. The same oracle runs on every state of the W-res and W-req explorations.",
                note=_ENUM_NOTE),
    "C12": dict(engine="ENUM", design_ref="DESIGN.md 4/C12", technique="bounded exhaustive input enumeration through the real Dispatcher against a brute-force matcher",
                text="All 160 000 placements of <= 3 vehicles and <= 3 requests on 7 tie-rich cells, and 111 132 combinations of vehicle/request eligibility attributes with and without fleets: pairs are eligible, one-to-one, of size min(#V,#R) per fleet and of brute-force-minimal total grid distance. ",
                note=_ENUM_NOTE),
    "C20": dict(engine="ENUM", design_ref="DESIGN.md 4/C20", technique="bounded exhaustive enumeration of shift tables, step lengths and start times through load_scenario/crank against an interval reference",
                text="36 shift tables (normal, wrapping, empty, touching midnight) x 4 step lengths (incl. one that does not divide a day) x 3 start times, two simulated days each, loaded from real CSV files: availability after every step, on/off events exactly at flips, and no dispatcher assignment to an off-shift driver.",
                note=_ENUM_NOTE),
})

TABLE.update({
    "C01": dict(engine="ORD", design_ref="DESIGN.md 4/C01", technique="schedule exploration over iteration orders (consecutive interpreter hash seeds in fresh processes until the declared order space is covered), implementation-level",
                text="Three generated scenarios (multi-fleet ties; charging ties across plug types, search cells and single-plug queues; human drivers, one-stall bases, overlapping price regions) and the shipped denver_demo_fleets inputs are loaded from real files and run in fresh interpreters under consecutive hash seeds until every permutation of every declared unordered collection of size <= 4 has been realised; per-step states, per-step event multisets and summary statistics equal those of the first seed. Contention counters prove each scenario passes through the ties it declares.",
                note="Trusted base: hivemc/ord.py, ord_worker.py, scen.py (canonicalisation drops only per-run UUID tags and sorts sets/maps); assumes hash values reach behaviour only through iteration order of str-keyed sets/Maps; shipped scenarios run on the straight-line network for a fixed number of seeds."),
})

TABLE.update({
    "C15": dict(engine="COMP", design_ref="DESIGN.md 4/C15", technique="exhaustive enumeration of all call compositions (schedules of co-simulation calls) against the single-call run, implementation-level",
                text="All 2^(N-1) ways of splitting an N-step run into successive hive_cosim.crank calls, for five scenario variants (multi-fleet, charging, human drivers + price file, a stateful custom generator re-injected between calls, lazy file reading) and end times that are / are not a multiple of the step, each from a freshly loaded payload, give per-step states and event multisets identical to one crank(N), to LocalSimulationRunner.run and to repeated .step(), which refuses exactly at end_time; the clock reads start + i*step.",
                note="Trusted base: hivemc/comp.py, scen.py; covers the first N steps of each scenario."),
})

TABLE.update({
    "C05": dict(engine="FSX", design_ref="DESIGN.md 4/C05", technique="explicit-state model checking of the implementation with a per-transition conservation monitor (induction over paths)",
                text="On every transition of W-res/money (BEV on the power-curve branch, small BEV, ICE + gas pump, non-round tariffs changed by price rows, sessions at stations and through a base, cut short by instructions and full batteries) and of W-req (non-round fares): vehicle and station balances, energy gained/dispensed per type, price = energy x the tariff in force, and the station named in each charge event.",
                note=_FSX_NOTE),
    "C19": dict(engine="FSX", design_ref="DESIGN.md 4/C19", technique="explicit-state model checking of the implementation with the real file-writing handlers; log lines parsed back after every transition",
                text="The same explorations with the real Reporter, EventfulHandler (event.log on tmpfs), StatsHandler and VehicleChargeEventsHandler installed: after every transition the appended lines parse as JSON and agree with the state deltas (odometer, energy gained, station load per station, summary counters, exactly one pickup/cancel line per resolved request, one drop-off line per completed trip, one charge line per charging step, waiting times within [0, timeout+step]).",
                note=_FSX_NOTE),
})

TABLE.update({
    "C09": dict(engine="FSX", design_ref="DESIGN.md 4/C09", technique="explicit-state model checking of the implementation; on every reached state the whole instruction menu is applied through apply_instructions, and pairs of instructions from two generators are stepped",
                text="Atomicity: on every state reached in W-res (K=2) each of ~70 instructions (incl. wrong plug, far away, no capacity, missing target, missing vehicle) either enters the instructed activity with consistent side effects or leaves the SimulationState equal in every field; on every state of a K=1 exploration every (rejected i, other-vehicle j) pair gives the same state as j alone in both orders. Precedence: in W-prec (two scripted generators, autonomous drivers that speak, one human driver going off shift) exactly one instruction takes effect per vehicle and it is the driver's, else the later generator's, else the earlier one's.",
                note=_FSX_NOTE),
    "C10": dict(engine="FSX", design_ref="DESIGN.md 4/C10", technique="explicit-state model checking of the implementation, one exploration per membership assignment (exhaustive over the assignment alphabet)",
                text="For every assignment of memberships (none/f1/f2/both) in the tier's alphabet (quick: 131 assignments over v0, station, base, request; thorough: all 2 048 over both vehicles, station, base, base station, request) a K=2,H=5 exploration with the full instruction menu (incl. a private home base): no vehicle is ever in an activity whose target does not grant it access, and Dispatcher, ChargingFleetManager and the drivers, asked on every reached state, never name such a target.",
                note=_FSX_NOTE),
    "C16": dict(engine="FSX", design_ref="DESIGN.md 4/C16", technique="explicit-state model checking of the implementation with deep structural fingerprints of retained states around every transition",
                text="On every transition of W-res and W-req explorations the retained pre-state (deep walk through tuples, dataclasses, Maps, sets, and any dict/list/ndarray/object of the library incl. the road network) reads identically after the step, after a second identical step, after ~40 apply_instructions calls on the successor and after two further steps; the two executions of each step give the same successor.",
                note=_FSX_NOTE),
    "C18": dict(engine="FSX", design_ref="DESIGN.md 4/C18", technique="explicit-state model checking of the implementation (budgeted BFS over the real step function)",
                text="In W-fifo (one station; 1 plug, 1 plug + small battery that leaves by itself, 2 plug types; 4 vehicles whose id order differs from arrival order) under every placement of at most K arrivals / departures / abandonments within H steps, no vehicle is granted a plug by the queue while a strictly earlier joiner of the same queue keeps waiting; equal enqueue times fall back to vehicle id.",
                note=_FSX_NOTE),
})

TABLE.update({
    "C06": dict(engine="ENUM", design_ref="DESIGN.md 4/C06", technique="bounded exhaustive enumeration of whole journeys judged step by step from the stored routes, plus the same oracle as an FSX transition monitor",
                text="For every ordered pair of snapped positions on the straight-line network and on generated street graphs (2x3 grid with 33 m / 1.7 km streets at 10/40/100 km/h and over-long links; ring with chord), every step length in {7,30,60,61,300} (thorough: also 1 s, more graphs) and every target kind (station, base, request + trip, reposition) the real instruction is applied and real steps run until the vehicle leaves the travelling activity: every step respects junction, suffix, speed (whole-second link rounding), odometer = route = move event, progress and leave-within-one-step clauses. The same oracle runs on every transition of three FSX worlds (incl. arrivals with a full battery).",
                note=_ENUM_NOTE),
})

NOT_APPLICABLE = {}
