"""replays one recorded counterexample linearly (no explorer) and says whether it still violates"""
from __future__ import annotations

import json
import sys


def replay_fsx(body: dict) -> int:
    from .fsx import Ctx, _load
    from .worlds import history_from_json

    rp = body["replay"]
    from .primer import prime_process

    prime_process()
    world = _load(tuple(rp["world_spec"][:2]) + (rp["world_spec"][2],))
    monitors = _load(tuple(rp["monitor_spec"][:2]) + (rp["monitor_spec"][2],))
    history = history_from_json(rp["history"])
    sim = world.starts[history[0]]
    hv = world.hv0_for(history[0])
    want = [str(x) for x in body["signature"]]
    found = []
    for m in monitors.initial:
        for v in m(world, sim):
            found.append(v)
    from collections import Counter

    for i, evs in enumerate(history[1:]):
        try:
            post, reports = world.step(sim, evs)
        except Exception as exc:
            print(f"step {i}: {type(exc).__name__}: {exc}")
            from .fsx import _exception_violation

            found.append(_exception_violation(body["property"], exc))
            break
        hv2 = world.hv_next(hv, sim, evs, post, reports)
        ctx = Ctx(world, sim, evs, post, reports, hv, hv2, Counter())
        acts = {vid: v.vehicle_state.__class__.__name__ for vid, v in sorted(post.vehicles.items())}
        print(f"step {i}: events={list(evs)} -> {acts} requests={sorted(post.requests)}")
        for m in monitors.transition:
            for v in m(ctx):
                print(f"   monitor: {v.clause}: {v.msg}")
                found.append(v)
        sim, hv = post, hv2
    sigs = [[str(x) for x in v.signature()[1:]] for v in found]
    if want in sigs:
        print(f"VIOLATION property={body['property']} replay={body.get('_path', '?')}")
        print("reproduced: " + body["message"])
        return 1
    if sigs:
        print(f"a different violation was observed: {sigs}")
        print(f"VIOLATION property={body['property']} replay={body.get('_path', '?')}")
        return 1
    print("not reproduced on this tree")
    return 0


def replay_file(path: str) -> int:
    with open(path) as f:
        body = json.load(f)
    body["_path"] = path
    engine = body["replay"].get("engine")
    if engine == "fsx":
        return replay_fsx(body)
    from . import enumreplay

    return enumreplay.replay(body)
