"""
W-auto: the library's *default control stack* left to run -- Dispatcher + ChargingFleetManager as built-in generators
(the pair load_scenario installs), autonomous drivers and one scheduled human driver with a home base -- closed by an
environment that only decides WHEN the three requests arrive (plus, optionally, a scripted controller whose instructions
are generated last and therefore override the built-in ones).  Idle time-out two steps, so the drivers' own
"go to a base", "charge at the base", "leave the base when full" logic all runs inside the horizon.

   A ... N1, N2 (same search cell)      X1, X2 (next cell)      M1, M2 (two steps away)      F1 (far)

   station s0 {DCFC:1} on N2            base b0 (2 stalls, station bs {LEVEL_2:1}) on N3 (the drivers look for a base in their own search cell first)
   station s1 {LEVEL_2:1} on M1         base hb (home of h0, 1 stall, station hs {LEVEL_2:1}) on X2
   v0 quiet  soc 0.5 at A               v1 small 0.70 kWh at N1 (5 km of range: needs a charge after one trip)
   v2 small  0.10 kWh at A (ChargingFleetManager sends it to the nearest plug at once: the base station bs)
   h0 human driver (home base hb), shift ends four steps into the run

The request status history variable is the one of W-req, so the C03 / C17 monitors apply unchanged; the resource, place,
money and log monitors (C02 C05 C07 C08 C19) apply as everywhere.
"""
from __future__ import annotations

from nrel.hive.dispatcher.instruction_generator.charging_fleet_manager import ChargingFleetManager
from nrel.hive.dispatcher.instruction_generator.dispatcher import Dispatcher
from nrel.hive.model.request import RequestRateStructure
from nrel.hive.model.roadnetwork.haversine_roadnetwork import HaversineRoadNetwork

from .w_req import ReqWorld
from .worlds import World, build_sim, make_config, make_env, mk_base, mk_station, mk_vehicle, sites


class AutoWorld(ReqWorld):
    name = "W-auto"

    def __init__(self, controller: bool = False, pairs: bool = True, requests=("r0", "r1", "r3"), name: str = "",
                 human: bool = True, prices: bool = False, cancel: int = 240, home_plug: bool = True, h0_energy=None):
        World.__init__(self)
        self.pairs = pairs
        self.name = name or (("W-auto+controller" if controller else "W-auto") + ("" if home_plug else "/no-home-plug"))
        S = sites()
        self.S = S
        dconf = {
            "matching_range_km_threshold": 0.0,
            "charging_range_km_threshold": 1.0,
            "charging_range_km_soft_threshold": 6.0,
            "base_charging_range_km_threshold": 200.0,  # a parked vehicle below this range charges at its base
            "max_search_radius_km": 20.0,
        }
        cfg = make_config(step=60, cancel=cancel, idle_timeout=120, dispatcher=dconf)

        def sched(sim, vehicle_id):  # on shift for the first four steps only
            from .worlds import T0

            return int(sim.sim_time) < T0 + 240

        self.env = make_env(cfg, schedules={"early": sched} if human else None)
        env = self.env
        rn = HaversineRoadNetwork(sim_h3_resolution=15)
        self.rn = rn
        s0 = mk_station(env, rn, "s0", S["N2"], {"DCFC": 1})
        s1 = mk_station(env, rn, "s1", S["M1"], {"LEVEL_2": 1})
        bs = mk_station(env, rn, "bs", S["N3"], {"LEVEL_2": 1})
        b0 = mk_base(rn, "b0", S["N3"], stalls=2, station_id="bs")
        stations, bases = [s0, s1, bs], [b0]
        v0 = mk_vehicle(env, rn, "v0", S["A"], "quiet", soc=0.5)
        v1 = mk_vehicle(env, rn, "v1", S["N1"], "small", energy=0.70)
        v2 = mk_vehicle(env, rn, "v2", S["A"], "small", energy=0.10)
        vehicles = [v0, v1, v2]
        if human:
            hs = mk_station(env, rn, "hs", S["X2"], {"LEVEL_2": 1})
            hb = mk_base(rn, "hb", S["X2"], stalls=1, station_id="hs" if home_plug else None)
            if home_plug:
                stations.append(hs)
            bases.append(hb)
            # h0_energy: a human-driven vehicle low enough for the ChargingFleetManager to LOOK at every step without sending it
            vehicles.append(mk_vehicle(env, rn, "h0", S["N2"], "quiet", soc=0.4, energy=h0_energy, schedule_id="early", home_base_id="hb"))
        if prices:
            import immutables

            stations[0] = stations[0].update_prices(immutables.Map({"DCFC": 0.2113}))[1]
            stations[2] = stations[2].update_prices(immutables.Map({"LEVEL_2": 0.0531}))[1]
            self.price_rows = {"p1": {"station_id": "s0", "charger_id": "DCFC", "price_kwh": "0.291"}}
        self.starts = {"init": build_sim(env, rn, vehicles=vehicles, stations=tuple(stations), bases=tuple(bases))}
        specs = {
            "r0": {"origin": S["M1"], "destination": S["N2"]},
            "r1": {"origin": S["A"], "destination": S["M2"]},
            "r3": {"origin": S["N1"], "destination": S["M1"]},
            "r4": {"origin": S["X3"], "destination": S["M1"]},  # in ANOTHER search cell: the human driver's "busiest cell" differs between states
        }
        self.request_specs = {k: dict(v, fleet_id=None) for k, v in specs.items() if k in tuple(requests)}
        self.rate_structure = RequestRateStructure(base_price=1.37, price_per_mile=0.73, minimum_price=0.5)
        self.builtin_generators = (Dispatcher(cfg.dispatcher), ChargingFleetManager(cfg.dispatcher))
        per_vehicle = [("Idle",), ("DispatchStation", "s0", "DCFC"), ("DispatchBase", "b0"), ("ChargeBase", "b0", "LEVEL_2")] + [
            ("DispatchTrip", r) for r in self.request_specs
        ]
        vids = [v.id for v in vehicles]
        self.controller_menu = [("I", k[0], vid) + tuple(k[1:]) for vid in vids for k in per_vehicle] if controller else []
        self.keep_tod = True  # the human driver's shift is read against the time of day

    @property
    def idle_clip(self) -> int:
        return World.idle_clip.fget(self)


def make(**kw) -> AutoWorld:
    return AutoWorld(**kw)
