"""tiny helper for the ENUM engines: run shards of an exhaustive enumeration on all cores"""
from __future__ import annotations

import multiprocessing as mp
from typing import Any, Callable, Iterable, List

from . import ncpu


def _call(args):
    fn, shard = args
    import logging

    logging.disable(logging.CRITICAL)
    return fn(shard)


def pmap(fn: Callable[[Any], Any], shards: Iterable[Any], workers: int = 0) -> List[Any]:
    shards = list(shards)
    workers = workers or ncpu()
    if workers <= 1 or len(shards) <= 1:
        return [fn(s) for s in shards]
    ctx = mp.get_context("fork")
    with ctx.Pool(min(workers, len(shards))) as pool:
        return pool.map(_call, [(fn, s) for s in shards], chunksize=1)


def rotate(xs: list, seed: int) -> list:
    """VERIF_SEED rotates the visiting order, never the set of cases"""
    if not xs:
        return xs
    r = seed % len(xs)
    return xs[r:] + xs[:r]
