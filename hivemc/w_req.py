"""
W-req: the request world (DESIGN.md C03/C17, also C05 fares and C19).

  A   v0 (quiet) and v2 (small battery, 0.10 kWh: drives one step towards M1, runs dry on the second)
  N1  v1 (quiet)
  N2  station s0 {DCFC:1}
  requests (released by the environment, each release is one deviation):
    r0  M1 -> N2   origin two steps from A and from N1 (access journeys span a step boundary)
    r1  A  -> M2   origin = v0's exact cell; trip takes two steps
    r2  N1 -> N1   origin = destination cell
  cancel time-out 180 s (3 steps), non-round fares.

History variable: per released request its life-cycle status, so that state matching never merges a run in
which a request was picked up with one in which it was not.
"""
from __future__ import annotations

from typing import Any

from nrel.hive.dispatcher.instruction_generator.dispatcher import Dispatcher
from nrel.hive.model.request import RequestRateStructure
from nrel.hive.model.roadnetwork.haversine_roadnetwork import HaversineRoadNetwork

from .worlds import World, build_sim, make_config, make_env, mk_station, mk_vehicle, sites


def servicing(sim):
    """request id -> vehicle id for every vehicle carrying passengers"""
    out = {}
    for vid, v in sim.vehicles.items():
        s = v.vehicle_state
        n = s.__class__.__name__
        if n == "ServicingTrip":
            # a trip whose route is used up has delivered its passengers (drop-off is filed on arrival);
            # the vehicle keeps the activity until its next update
            if len(s.route) > 0:
                out[s.request.id] = vid
        elif n == "ServicingPoolingTrip":
            for rid in s.boarded_requests.keys():
                out[rid] = vid
    return out


class ReqWorld(World):
    name = "W-req"

    def __init__(self, dispatcher: bool = False, controller: bool = True, pairs: bool = True, fleets=(),
                 requests=("r0", "r1", "r2"), cancel: int = 180, low: bool = True, name: str = "", dispatch_states=None, prestart=(), human_shift: int = 0, drain: bool = False, midnight: bool = False):
        super().__init__()
        self.pairs = pairs
        if name:
            self.name = name
        elif dispatcher:
            self.name = "W-req+dispatcher" if controller else "W-req/dispatcher-only"
        S = sites()
        self.S = S
        dconf = {"matching_range_km_threshold": 0.0}
        if dispatch_states:
            dconf["valid_dispatch_states"] = list(dispatch_states)  # e.g. also "dispatchtrip": vehicles en route may be re-matched
        # midnight: the run starts two minutes before the end of a day (requests issued before midnight are served after it)
        t_start = 2 * 86400 - 120 if midnight else None
        cfg = make_config(step=60, cancel=cancel, idle_timeout=100000, dispatcher=dconf, **({"start": t_start, "end": 3 * 86400} if midnight else {}))
        schedules = None
        if human_shift:
            from .worlds import T0

            def sched(sim, vehicle_id, _end=T0 + 60 * human_shift):  # on shift for the first `human_shift` steps only
                return int(sim.sim_time) < _end

            schedules = {"early": sched}
            self.keep_tod = True
        self.env = make_env(cfg, fleets=fleets, schedules=schedules)
        env = self.env
        rn = HaversineRoadNetwork(sim_h3_resolution=15)
        self.rn = rn
        s0 = mk_station(env, rn, "s0", S["N2"], {"DCFC": 1})
        vf = tuple(fleets[:1])
        v0 = mk_vehicle(env, rn, "v0", S["A"], "quiet", soc=0.5, fleets=vf)
        v1 = mk_vehicle(env, rn, "v1", S["N1"], "quiet", soc=0.5, fleets=tuple(fleets[-1:]))
        stations, bases = (s0,), ()
        if human_shift:
            # v0 is driven by a human whose shift ends while under way and who has nowhere to go: the home base has no plug and
            # the world no station, so the go-home logic yields no instruction; the autonomous v1 stands a little further out
            from .worlds import mk_base

            v0 = mk_vehicle(env, rn, "v0", S["A"], "quiet", soc=0.5, fleets=vf, schedule_id="early", home_base_id="hb")
            v1 = mk_vehicle(env, rn, "v1", S["X1"], "quiet", soc=0.5, fleets=tuple(fleets[-1:]))
            stations, bases = (), (mk_base(rn, "hb", S["N3"], stalls=1, station_id=None),)
        vehicles = [v0, v1]
        if low:
            if drain:
                # idle draw: this vehicle's battery is emptied by ONE idle step (it then stands Idle with exactly 0 for one step)
                vehicles.append(mk_vehicle(env, rn, "v2", S["A"], "tiny_thirsty", energy=0.02, fleets=vf))
            else:
                vehicles.append(mk_vehicle(env, rn, "v2", S["A"], "small", energy=0.10, fleets=vf))
        self.starts = {"init": build_sim(env, rn, vehicles=vehicles, stations=stations, bases=bases, **({"start": t_start} if midnight else {}))}
        specs = {
            "r0": {"origin": S["M1"], "destination": S["N2"]},
            "r1": {"origin": S["A"], "destination": S["M2"]},
            "r2": {"origin": S["N1"], "destination": S["N1"]},
            # for the re-match configuration: a trip that ends next to another request's origin
            "r3": {"origin": S["N1"], "destination": S["M1"]},
            "r5": {"origin": S["M2"], "destination": S["N2"]},
            "r6": {"origin": S["F2"], "destination": S["N2"]},
            # requests that allow pooling (optional column of the request file); autonomous drivers allow it too
            "p0": {"origin": S["M1"], "destination": S["N2"], "allows_pooling": True},
            "p1": {"origin": S["A"], "destination": S["M2"], "allows_pooling": True},
        }
        requests = tuple(requests)
        self.request_specs = {k: dict(v, fleet_id=(fleets[0] if fleets else None)) for k, v in specs.items() if k in requests}
        self.rate_structure = RequestRateStructure(base_price=1.37, price_per_mile=0.73, minimum_price=0.5)
        self.builtin_generators = (Dispatcher(cfg.dispatcher),) if dispatcher else ()
        link_m = rn.position_from_geoid(S["M2"]).link_id
        per_vehicle = [("DispatchTrip", r) for r in self.request_specs] + [
            ("Idle",),
            ("OutOfService",),
            ("Reposition", link_m),
        ] + ([("DispatchStation", "s0", "DCFC")] if stations else [])
        pool = [r for r in self.request_specs if self.request_specs[r].get("allows_pooling")]
        if len(pool) >= 2:
            # pooling re-plans (only accepted for a vehicle that already serves a pooling trip): the other pooling request
            # is picked up before / after the current passengers are dropped
            a, b = pool[:2]
            for x, y in ((a, b), (b, a)):
                per_vehicle += [("Pool", f"{x}:D", f"{y}:P", f"{y}:D"), ("Pool", f"{y}:P", f"{x}:D", f"{y}:D"), ("Pool", f"{y}:P", f"{y}:D", f"{x}:D")]
        vids = [v.id for v in vehicles]
        self.controller_menu = (
            [("I", k[0], vid) + tuple(k[1:]) for vid in vids for k in per_vehicle] if controller else []
        )
        # C09 atomicity on this world: the whole menu plus targets that do not exist and pooling plans that are empty / name no such request
        self.atomic_menu = [("I", k[0], vid) + tuple(k[1:]) for vid in vids for k in per_vehicle] + [
            e for vid in vids for e in (("I", "DispatchTrip", vid, "nope"), ("I", "Pool", vid), ("I", "Pool", vid, "nope:P", "nope:D"))]
        self.atomic_pairs = False
        # idle_duration is never read within the horizon (time-out far beyond it): drop it from the key
        self._idle_clip = 0
        self._start_hv = {}
        if prestart:
            # a second start state in which these requests have just been admitted (through the same admission path), so that
            # histories needing "request waiting" do not spend their deviation budget on the arrivals
            from nrel.hive.state.simulation_state.update.update_requests_from_file import update_requests_from_iterator

            sim0 = self.starts["init"]
            rows = [self.request_row(n, int(sim0.sim_time)) for n in prestart]
            sim1 = update_requests_from_iterator(iter(rows), sim0, env, self.rate_structure)
            self.env.reporter.take()
            label = "waiting:" + ",".join(prestart)
            self.starts[label] = sim1
            self._start_hv[label] = (frozenset(prestart), tuple(sorted((n, "waiting") for n in prestart)))

    @property
    def idle_clip(self) -> int:
        return 0

    # -- history variables: (released, ((rid, status), ...)) ----------------------------------------
    def hv0(self) -> Any:
        return (frozenset(), ())

    def released(self, hv) -> frozenset:
        return hv[0]

    def hv0_for(self, label: str) -> Any:
        return getattr(self, "_start_hv", {}).get(label, self.hv0())

    def hv_next(self, hv, pre, events, post, reports) -> Any:
        released, statuses = hv
        st = dict(statuses)
        rel = [e[1] for e in events if e[0] == "R"]
        if rel:
            released = released | frozenset(rel)
        carrying = servicing(post)
        cancelled = {r.report["request_id"] for r in reports if r.report_type.name == "CANCEL_REQUEST_EVENT"}
        for rid in sorted(released):
            old = st.get(rid, "unseen")
            if old in ("dropped", "cancelled", "stranded", "vanished"):
                continue
            if rid in post.requests:
                st[rid] = "waiting"
            elif rid in carrying:
                st[rid] = "onboard:" + carrying[rid]
            elif old.startswith("onboard:"):
                v = post.vehicles.get(old.split(":", 1)[1])
                st[rid] = "stranded" if v is not None and v.vehicle_state.__class__.__name__ == "OutOfService" else "dropped"
            else:
                # was waiting (or just released) and is gone
                if rid in cancelled:
                    st[rid] = "cancelled"
                elif any(r.report_type.name == "PICKUP_REQUEST_EVENT" and r.report["request_id"] == rid for r in reports):
                    # picked up and finished (or stranded: vehicle ran dry on the first move) inside one step
                    pv = [r.report["vehicle_id"] for r in reports
                          if r.report_type.name == "PICKUP_REQUEST_EVENT" and r.report["request_id"] == rid]
                    v = post.vehicles.get(pv[0])
                    st[rid] = "stranded" if v is not None and v.vehicle_state.__class__.__name__ == "OutOfService" else "dropped"
                else:
                    st[rid] = "vanished"
        return (released, tuple(sorted(st.items())))


def make(**kw) -> ReqWorld:
    return ReqWorld(**kw)
