"""
Worlds for C16 (earlier states are never modified): the transition is wrapped so that a deep structural fingerprint
of the pre-state -- NamedTuples, dataclasses, Maps, frozensets, tuples AND dicts / lists / sets / numpy arrays /
objects with __dict__ (so a persistent container replaced by a mutable one is still seen), road network included --
is taken before and re-taken after (a) the step, (b) every single-instruction apply_instructions call of the menu,
(c) two further default steps from the successor; and every transition is executed twice from the same retained
pre-state with the same scripted controller.
"""
from __future__ import annotations

from .canon import canon_sim_full, deep_fingerprint, digest
from .w_req import ReqWorld
from .w_res import ResWorld
from .worlds import mk_instruction

from nrel.hive.state.simulation_state.update.step_simulation_ops import apply_instructions


class ImmReports(list):
    findings: list = []
    counts: dict = {}


def env_fingerprint(env) -> str:
    """the shared, supposedly read-only assets every state is stepped with (the reporter is an event sink, excluded)"""
    return deep_fingerprint((env.mechatronics, env.chargers, env.schedules, env.fleet_ids, env.config))


def imm_step(world, base_step, sim, events):
    fp0 = deep_fingerprint(sim)
    efp0 = env_fingerprint(world.env)
    post, reports = base_step(sim, events)
    carried = getattr(world, "_carried_controller", None)
    out = ImmReports(reports)
    out.findings = []
    out.counts = {"steps": 1, "apply_calls": 0}
    if deep_fingerprint(sim) != fp0:
        out.findings.append(("pre_state_modified", "step", "the pre-state reads differently after stepping it"))
    # the same step again from the same retained pre-state
    post2, _ = base_step(sim, events)
    if digest(canon_sim_full(post)) != digest(canon_sim_full(post2)):
        out.findings.append(("not_repeatable", "step", "stepping the same saved state twice with the same controller gave two different results"))
    if deep_fingerprint(sim) != fp0:
        out.findings.append(("pre_state_modified", "second_step", "the pre-state reads differently after stepping it a second time"))
    # ... and an EARLIER saved state once more, now that this process has stepped other states in between (a handful of transitions
    # are retained per process, one of them is re-stepped at every transition): whatever the library remembers from one call to the next
    # -- per process, not per state -- has been refilled by other states meanwhile
    kept = world.__dict__.setdefault("_retained_transitions", [])
    calls = world.__dict__["_imm_calls"] = world.__dict__.get("_imm_calls", 0) + 1
    if kept:
        pre_k, ev_k, dig_k = kept[calls % len(kept)]
        again, _ = base_step(pre_k, ev_k)
        out.counts["earlier_state_stepped_again"] = 1
        if digest(canon_sim_full(again)) != dig_k:
            out.findings.append(("not_repeatable", "later_in_the_process", "a saved state stepped again after the process had stepped other states gave a different result than the first time"))
    if len(kept) < 6 and calls in (1, 2, 5, 17, 65, 257):
        kept.append((sim, events, digest(canon_sim_full(post))))
    if env_fingerprint(world.env) != efp0:
        out.findings.append(("shared_assets_modified", "step", "stepping changed the environment's shared assets (mechatronics / chargers / schedules / config): later steps of ANY saved state depend on it"))
    if not getattr(world, "_replaying", False) and carried is not None:
        # the controller handed back by the step (what a runner carries forward): stepping the saved successor twice with it
        # must give the same result both times
        try:
            world.env.reporter.take()
            a1, _ = carried.update(post, world.env)
            a2, _ = carried.update(post, world.env)
            world.env.reporter.take()
            out.counts["carried_controller_steps"] = 2
            if digest(canon_sim_full(a1)) != digest(canon_sim_full(a2)):
                out.findings.append(("not_repeatable", "carried_controller", "stepping the same saved state twice with the controller returned by the previous step gave two different results"))
        except Exception as e:
            out.findings.append(("not_repeatable", "carried_controller_exception", f"re-using the controller returned by the previous step raised {type(e).__name__}: {e}"))
    if not getattr(world, "_replaying", False):
        fp1 = deep_fingerprint(post)
        for ev in world.controller_menu:
            try:
                apply_instructions(post, world.env, (mk_instruction(ev),))
            except Exception:
                continue
            out.counts["apply_calls"] += 1
        if deep_fingerprint(post) != fp1:
            out.findings.append(("state_modified", "apply_instructions", "a saved state reads differently after apply_instructions calls on it"))
        s2, _ = base_step(post, ())
        s3, _ = base_step(s2, ())
        if deep_fingerprint(post) != fp1 or deep_fingerprint(sim) != fp0:
            out.findings.append(("state_modified", "later_steps", "a saved state reads differently after two further steps from its successor"))
    return post, out


class ImmResWorld(ResWorld):
    def __init__(self, **kw):
        super().__init__(**kw)
        self.name = kw.get("name") or "W-res/imm"

    def step(self, sim, events):
        return imm_step(self, super().step, sim, events)


class ImmReqWorld(ReqWorld):
    def __init__(self, **kw):
        super().__init__(**kw)
        self.name = kw.get("name") or "W-req/imm"

    def step(self, sim, events):
        return imm_step(self, super().step, sim, events)


from .w_grid import GridWorld


class ImmGridWorld(GridWorld):
    def __init__(self, **kw):
        super().__init__(**kw)
        self.name = kw.get("name") or "W-grid/imm"

    def step(self, sim, events):
        return imm_step(self, super().step, sim, events)


from .w_auto import AutoWorld


class ImmAutoWorld(AutoWorld):
    def __init__(self, **kw):
        super().__init__(**kw)
        self.name = self.name + "/imm"

    def step(self, sim, events):
        return imm_step(self, super().step, sim, events)


from .w_seek import SeekWorld


class ImmSeekWorld(SeekWorld):
    def __init__(self, **kw):
        super().__init__(**kw)
        self.name = self.name + "/imm"

    def step(self, sim, events):
        return imm_step(self, super().step, sim, events)


from .w_fifo import FifoWorld


class ImmFifoWorld(FifoWorld):
    def __init__(self, **kw):
        super().__init__(**kw)
        self.name = self.name + "/imm"

    def step(self, sim, events):
        return imm_step(self, super().step, sim, events)


def make_fifo(**kw):
    if "plugs" in kw:
        kw["plugs"] = tuple(kw["plugs"])
    return ImmFifoWorld(**kw)


def make_seek(**kw):
    return ImmSeekWorld(**kw)


def make_auto(**kw):
    return ImmAutoWorld(**kw)


def make_grid(**kw):
    return ImmGridWorld(**kw)


def make_res(**kw):
    return ImmResWorld(**kw)


def make_req(**kw):
    return ImmReqWorld(**kw)
