"""
C16, differential exploration under process histories.  A tiny world -- one vehicle and two requests r0, r1 that both start on
the vehicle's own cell (a cost tie for the built-in Dispatcher), r0 with the higher fare -- is run through EVERY arrival schedule
of the two requests (each released in one of the first three steps, 9 schedules x 5 steps), in three fresh interpreter processes:

   (none)     nothing has happened in the process before
   (same)     the process has first run another simulation with the same request ids and the same fares
   (reversed) the process has first run another simulation with the same request ids and the fares exchanged

A saved state stepped with the same controller gives the same result whatever the process has done before: the three processes
must produce identical states after every step of every schedule.  What the library remembers per process under a key that is
coarser than the state (here: per set of open request ids) is filled with conflicting values by the primer and shows as a
difference.
"""
from __future__ import annotations

import itertools
import json
import os
import subprocess
import sys
from typing import List, Optional

from . import REPO, VERIF
from .report import Check, Finding, log

VARIANTS = ("none", "same", "reversed")


def _world(reverse: bool):
    from nrel.hive.dispatcher.instruction_generator.dispatcher import Dispatcher
    from nrel.hive.model.request import RequestRateStructure
    from nrel.hive.model.roadnetwork.haversine_roadnetwork import HaversineRoadNetwork

    from .w_req import ReqWorld
    from .worlds import World, build_sim, make_config, make_env, mk_vehicle, sites

    class TieWorld(ReqWorld):
        name = "W-tie"

        def __init__(self):
            World.__init__(self)
            S = sites()
            cfg = make_config(step=60, cancel=600, idle_timeout=100000, dispatcher={"matching_range_km_threshold": 0.0})
            self.env = make_env(cfg)
            rn = HaversineRoadNetwork(sim_h3_resolution=15)
            self.rn = rn
            v0 = mk_vehicle(self.env, rn, "v0", S["A"], "quiet", soc=0.5)
            v1 = mk_vehicle(self.env, rn, "v1", S["F1"], "quiet", soc=0.5)  # far away: the second request waits for it
            self.starts = {"init": build_sim(self.env, rn, vehicles=(v0, v1))}
            far, near = (S["N1"], S["M2"]) if reverse else (S["M2"], S["N1"])
            self.request_specs = {"r0": {"origin": S["A"], "destination": far}, "r1": {"origin": S["A"], "destination": near}}
            self.rate_structure = RequestRateStructure(base_price=1.37, price_per_mile=0.73, minimum_price=0.5)
            self.builtin_generators = (Dispatcher(cfg.dispatcher),)
            self.controller_menu = []

    return TieWorld()


def trace(variant: str) -> List[list]:
    from .canon import canon_sim_full, digest

    if variant != "none":
        p = _world(reverse=(variant == "reversed"))
        sim = p.starts["init"]
        # the other simulation is abandoned right after the step in which both requests were open (a what-if variant looked at for
        # one step): the last thing the process has seen is a dispatcher call over the open requests {r0, r1}
        sim, _ = p.step(sim, (("R", "r0"), ("R", "r1")))
    w = _world(reverse=False)
    out = []
    for t0, t1 in itertools.product(range(3), repeat=2):
        sim = w.starts["init"]
        for k in range(5):
            evs = tuple(("R", n) for n, t in (("r0", t0), ("r1", t1)) if t == k)
            sim, _ = w.step(sim, evs)
            who = {vid: (v.vehicle_state.__class__.__name__, getattr(v.vehicle_state, "request_id", None) or getattr(getattr(v.vehicle_state, "request", None), "id", None)) for vid, v in sorted(sim.vehicles.items())}
            out.append([[t0, t1, k], digest(canon_sim_full(sim)), repr(who)])
    return out


def _run(variant: str) -> List[list]:
    env = dict(os.environ, PYTHONHASHSEED="0", PYTHONPATH=VERIF, VERIF_REPO=REPO, _HIVEMC_REEXEC="1")
    p = subprocess.run([sys.executable, "-m", "hivemc.diffprimer", variant], env=env, capture_output=True, text=True, cwd=VERIF, timeout=600)
    if p.returncode != 0:
        raise RuntimeError(f"diffprimer worker {variant} failed: {(p.stderr or p.stdout)[-1500:]}")
    return json.loads(p.stdout.strip().splitlines()[-1])


def compare() -> Optional[str]:
    runs = {v: _run(v) for v in VARIANTS}
    base = runs["none"]
    for v in VARIANTS[1:]:
        for a, b in zip(base, runs[v]):
            if a[:2] != b[:2]:
                return (f"arrival schedule r0 at step {a[0][0]}, r1 at step {a[0][1]}: after step {a[0][2] + 1} a fresh process has {a[2]}; a process that first ran "
                        f"another simulation with the same request ids and {'exchanged' if v == 'reversed' else 'the same'} fares has {b[2]}")
    return None


def c16_differential(c: Check):
    msg = compare()
    c.coverage["process_history_differential"] = {"world": "W-tie (1+1 vehicles, 2 requests on the near vehicle's cell, built-in Dispatcher)", "arrival_schedules": 9, "steps_each": 5,
                                                  "processes": list(VARIANTS), "states_compared": 45 * (len(VARIANTS) - 1)}
    c.coverage["states"] = c.coverage.get("states", 0) + 45 * len(VARIANTS)
    c.coverage["transitions"] = c.coverage.get("transitions", 0) + 45 * len(VARIANTS)
    if msg:
        c.add(Finding("C16", ("not_repeatable", "process_history", "same_ids_other_values"), msg, {"engine": "diffprimer"}))
    log(f"  C16 differential: 9 arrival schedules x 5 steps of W-tie in {len(VARIANTS)} processes with different histories: {'DIFFER' if msg else 'identical'}")


def replay(body) -> int:
    msg = compare()
    if msg:
        print(msg)
        print(f"VIOLATION property=C16 replay={body.get('_path')}")
        return 1
    print("not reproduced on this tree")
    return 0


if __name__ == "__main__":
    print(json.dumps(trace(sys.argv[1])))
