"""monitor bundles, addressed by name from worker processes"""
from __future__ import annotations

from . import monitors as m
from .fsx import Monitors


def c02() -> Monitors:
    return Monitors("C02", [m.c02_transition, m.cov_matrix], [m.c02_initial], m.outcome_vector)


def c07() -> Monitors:
    return Monitors("C07", [m.c07_transition, m.cov_matrix], [m.c07_initial], m.outcome_vector)


def c08() -> Monitors:
    return Monitors("C08", [m.c08_transition, m.cov_matrix], [m.c08_initial], m.outcome_vector)


def c17() -> Monitors:
    return Monitors("C17", [m.c17_transition, m.cov_matrix], [m.c17_initial], m.outcome_vector)


def c03() -> Monitors:
    return Monitors("C03", [m.c03_transition, m.cov_matrix], [], m.outcome_vector)


def c17_builtin() -> Monitors:
    return Monitors("C17", [m.c17_transition, m.c17_builtin_only, m.cov_matrix], [m.c17_initial], m.outcome_vector)


def c04() -> Monitors:
    return Monitors("C04", [m.c04_transition, m.cov_matrix], [], m.outcome_vector)


def c05() -> Monitors:
    return Monitors("C05", [m.c05_transition, m.cov_matrix], [], m.outcome_vector)


def c19() -> Monitors:
    return Monitors("C19", [m.c19_transition, m.cov_matrix], [], m.outcome_vector)


def c18() -> Monitors:
    return Monitors("C18", [m.c18_transition, m.cov_matrix], [], m.outcome_vector)


def c16() -> Monitors:
    return Monitors("C16", [m.c16_transition, m.cov_matrix], [], m.outcome_vector)


def c09_atomicity() -> Monitors:
    return Monitors("C09", [m.c09_atomicity, m.cov_matrix], [], m.outcome_vector)


def c09_precedence() -> Monitors:
    return Monitors("C09", [m.c09_precedence], [], m.outcome_vector)


def c10() -> Monitors:
    return Monitors("C10", [m.c10_transition, m.cov_matrix], [m.c10_initial], m.outcome_vector)


def c06() -> Monitors:
    return Monitors("C06", [m.c06_transition, m.cov_matrix], [], m.outcome_vector)


def c07_probe() -> Monitors:
    return Monitors("C07", [m.c07_transition, m.c07_menu_probe, m.cov_matrix], [m.c07_initial], m.outcome_vector)


def c02_probe() -> Monitors:
    return Monitors("C02", [m.c02_transition, m.c02_menu_probe, m.cov_matrix], [m.c02_initial], m.outcome_vector)
