"""
Pooling plans at the activity level (C03 / C05 / C07 clauses for shared rides).

On this tree no *instruction* can start a multi-request pooling plan (DispatchPoolingTripInstruction only re-plans a
vehicle that already serves a pooling trip), so the plan-following code -- DispatchPoolingTrip -> ServicingPoolingTrip,
one pick-up / drop-off per plan phase -- is only reachable through the vehicle-state API that custom instructions use.
This enumeration enters EVERY valid plan over 1..3 pooling requests (all interleavings with each pick-up before its
drop-off: 1 + 6 + 90), for two vehicle positions and two party sizes, through transition_previous_to_next, and then lets
the real step function run it to the end, judging every step:

  C03  every request of the plan is picked up exactly once and dropped off exactly once, by this vehicle, in plan order,
       none vanishes, the bystander vehicle is untouched, and the fare of every pick-up is credited to the vehicle;
  C05  per step, the vehicle's balance changes by exactly the fares of that step's pick-up events;
  C07  every pick-up happens on the request's origin cell and every drop-off on its destination cell.
"""
from __future__ import annotations

import itertools
from typing import Dict, List, Tuple

from . import VERIF  # noqa: F401
from .report import Check, Finding, log

ORIGINS = ("N1", "M1", "X1")
DESTS = ("M2", "N3", "N2")


def plans(n: int) -> List[Tuple[Tuple[str, str], ...]]:
    names = [f"p{i}" for i in range(n)]
    steps = [(r, ph) for r in names for ph in "PD"]
    out = []
    for perm in itertools.permutations(steps):
        if all(perm.index((r, "P")) < perm.index((r, "D")) for r in names):
            out.append(tuple(perm))
    return out


def _world(n: int, start: str, party: int):
    from .w_req import ReqWorld

    w = ReqWorld(requests=(), cancel=900, low=False, name="pooling-plans")
    S = w.S
    w.request_specs = {f"p{i}": {"origin": S[ORIGINS[i]], "destination": S[DESTS[i]], "allows_pooling": True, "passengers": party, "fleet_id": None} for i in range(n)}
    from nrel.hive.state.simulation_state.update.update_requests_from_file import update_requests_from_iterator
    from nrel.hive.state.simulation_state import simulation_state_ops

    sim = w.starts["init"]
    v0 = sim.vehicles["v0"].modify_position(w.rn.position_from_geoid(S[start]))
    err, sim = simulation_state_ops.modify_vehicle(sim, v0)
    assert err is None
    rows = [w.request_row(k, int(sim.sim_time)) for k in w.request_specs]
    sim = update_requests_from_iterator(iter(rows), sim, w.env, w.rate_structure)
    w.env.reporter.take()
    return w, sim


def run_plan(plan, start: str, party: int):
    """-> (list of (clause, message)), stats"""
    from nrel.hive.model.vehicle.trip_phase import TripPhase
    from nrel.hive.state.entity_state import entity_state_ops
    from nrel.hive.state.vehicle_state.dispatch_pooling_trip import DispatchPoolingTrip

    n = len(plan) // 2
    w, sim = _world(n, start, party)
    env, rn = w.env, w.rn
    bad: List[Tuple[str, str]] = []
    fares = {rid: float(r.value) for rid, r in sim.requests.items()}
    origin = {rid: r.origin for rid, r in sim.requests.items()}
    dest = {rid: r.destination for rid, r in sim.requests.items()}
    v = sim.vehicles["v0"]
    ph = {"P": TripPhase.PICKUP, "D": TripPhase.DROPOFF}
    tp = tuple((rid, ph[x]) for rid, x in plan)
    first = sim.requests[plan[0][0]]
    nxt = DispatchPoolingTrip.build("v0", tp, rn.route(v.position, first.position))
    err, s1 = entity_state_ops.transition_previous_to_next(sim, env, v.vehicle_state, nxt)
    if err is not None or s1 is None:
        return [("plan_refused", f"a valid plan was refused: {err}")], {"steps": 0, "entered": False}
    sim = s1
    def _by(s):
        o = s.vehicles["v1"]
        return (o.geoid, o.balance, o.vehicle_state.__class__.__name__, o.distance_traveled_km)

    bystander = _by(sim)
    events: List[Tuple[str, str]] = []
    pick_n: Dict[str, int] = {}
    drop_n: Dict[str, int] = {}
    steps = 0
    for steps in range(1, 31):
        pre = sim
        sim, reports = w.step(sim, ())
        a, b = pre.vehicles["v0"], sim.vehicles["v0"]
        step_fares = 0.0
        for r in reports:
            t = r.report_type.name
            if t == "PICKUP_REQUEST_EVENT":
                rid = r.report["request_id"]
                pick_n[rid] = pick_n.get(rid, 0) + 1
                events.append((rid, "P"))
                step_fares += float(r.report["price"])
                if r.report["vehicle_id"] != "v0":
                    bad.append(("pickup_vehicle", f"{rid} picked up by {r.report['vehicle_id']}"))
                if r.report["geoid"] != origin[rid]:
                    bad.append(("pickup_place", f"{rid} picked up on {r.report['geoid']}, origin {origin[rid]}"))
                if abs(float(r.report["price"]) - fares[rid]) > 1e-9:
                    bad.append(("fare_amount", f"{rid}: pick-up event price {r.report['price']}, fare {fares[rid]}"))
            elif t == "DROPOFF_REQUEST_EVENT":
                rid = r.report["request_id"]
                drop_n[rid] = drop_n.get(rid, 0) + 1
                events.append((rid, "D"))
                if r.report["vehicle_id"] != "v0":
                    bad.append(("dropoff_vehicle", f"{rid} dropped by {r.report['vehicle_id']}"))
                if r.report["geoid"] != dest[rid]:
                    bad.append(("dropoff_place", f"{rid} dropped on {r.report['geoid']}, destination {dest[rid]}"))
            elif t == "CANCEL_REQUEST_EVENT":
                bad.append(("cancelled", f"{r.report['request_id']} cancelled although the time-out is far away"))
        if abs((b.balance - a.balance) - step_fares) > 1e-9:
            bad.append(("fare_not_credited", f"step {steps}: pick-up fares {step_fares:.6f} in this step, balance changed by {b.balance - a.balance:.6f}"))
        if _by(sim) != bystander:
            bad.append(("bystander_touched", f"step {steps}: vehicle v1 changed"))
        if b.vehicle_state.__class__.__name__ in ("Idle", "OutOfService"):
            break
    final = sim.vehicles["v0"]
    fs = final.vehicle_state.__class__.__name__
    if fs != "Idle":
        bad.append(("not_finished", f"after {steps} steps the vehicle is {fs} (plan {plan})"))
    else:
        for rid in fares:
            if pick_n.get(rid, 0) != 1:
                bad.append(("pickup_count", f"{rid}: {pick_n.get(rid, 0)} pick-up events"))
            if drop_n.get(rid, 0) != 1:
                bad.append(("dropoff_count", f"{rid}: {drop_n.get(rid, 0)} drop-off events"))
            if rid in sim.requests:
                bad.append(("still_waiting", f"{rid} is still in the simulation after the plan was finished"))
        if tuple(events) != tuple(plan):
            bad.append(("plan_order", f"events {events} do not follow the plan {list(plan)}"))
        if abs(final.balance - sum(fares.values())) > 1e-9:
            bad.append(("balance_total", f"balance {final.balance:.6f} after the plan, fares of the requests picked up {sum(fares.values()):.6f}"))
    return bad, {"steps": steps, "entered": True, "events": len(events)}


C03_CLAUSES = {"plan_refused", "pickup_vehicle", "dropoff_vehicle", "cancelled", "not_finished", "pickup_count", "dropoff_count", "still_waiting",
               "plan_order", "bystander_touched", "fare_not_credited", "fare_amount", "dropoff_place"}
C05_CLAUSES = {"fare_not_credited", "balance_total", "fare_amount"}
C07_CLAUSES = {"pickup_place", "dropoff_place"}


def run(c: Check, prop: str):
    clauses = {"C03": C03_CLAUSES, "C05": C05_CLAUSES, "C07": C07_CLAUSES}[prop]
    cases = steps = entered = events = 0
    seen = set()
    for n in (1, 2, 3):
        for plan in plans(n):
            for start, party in (("A", 1), (ORIGINS[int(plan[0][0][1:])], 1), ("A", 2)):
                bad, st = run_plan(plan, start, party)
                cases += 1
                steps += st["steps"]
                entered += 1 if st.get("entered") else 0
                events += st.get("events", 0)
                for clause, msg in bad:
                    if clause not in clauses:
                        continue
                    sig = (clause, "pooling_plan", f"{n}_requests")
                    if sig in seen:
                        continue
                    seen.add(sig)
                    c.add(Finding(prop, sig, f"pooling plan {['%s:%s' % p for p in plan]} entered through the state API (vehicle at {start}, parties of {party}): {msg}",
                                  {"engine": "enum_pooling", "plan": [list(p) for p in plan], "start": start, "party": party, "prop": prop}))
    cov = c.coverage
    cov["pooling_plans"] = {"plans_entered_and_run_to_the_end": entered, "cases": cases, "steps": steps, "pickup_and_dropoff_events": events,
                            "rule": "every interleaving of pick-ups and drop-offs over 1..3 pooling requests (1 + 6 + 90) x 3 (vehicle position, party size)"}
    cov["states"] = cov.get("states", 0) + steps
    cov["transitions"] = cov.get("transitions", 0) + steps
    cov["traces_validated_against_impl"] = cov.get("traces_validated_against_impl", 0) + cases
    if entered < cases or not events:
        c.vacuous.append(f"pooling_plans: only {entered} of {cases} plans could be entered")
    log(f"  {prop} pooling plans: {cases} plans run to the end ({steps} steps, {events} pick-up/drop-off events), {len(seen)} violation signatures")


def replay_c17(body) -> int:
    rp = body["replay"]
    bad, st = run_interrupted(tuple(tuple(x) for x in rp["plan"]), rp["k"], rp["variant"])
    print(st)
    for clause, msg in bad:
        print(clause, "::", msg)
    if bad:
        print(f"VIOLATION property=C17 replay={body.get('_path')}")
        return 1
    print("not reproduced on this tree")
    return 0


def replay(body) -> int:
    if body["replay"].get("prop") == "C17":
        return replay_c17(body)
    rp = body["replay"]
    bad, st = run_plan(tuple(tuple(p) for p in rp["plan"]), rp["start"], rp["party"])
    want = body["signature"][0]
    for clause, msg in bad:
        print(clause, "::", msg)
    if any(clause == want for clause, _ in bad):
        print(f"VIOLATION property={body['property']} replay={body.get('_path')}")
        return 1
    print("not reproduced on this tree")
    return 0


# ------------------------------------------------------------------------------------------------ C17: interrupted plans


def run_interrupted(plan, k: int, variant: str):
    """enter the plan, travel k steps, (variant 'removed': the request the vehicle is heading for leaves the simulation,) then stop
    the vehicle with an IdleInstruction; afterwards no waiting request may record a vehicle that is not travelling to it"""
    from nrel.hive.model.vehicle.trip_phase import TripPhase
    from nrel.hive.state.entity_state import entity_state_ops
    from nrel.hive.state.simulation_state import simulation_state_ops
    from nrel.hive.state.vehicle_state.dispatch_pooling_trip import DispatchPoolingTrip

    n = len(plan) // 2
    w, sim = _world(n, "A", 1)
    env, rn = w.env, w.rn
    v = sim.vehicles["v0"]
    ph = {"P": TripPhase.PICKUP, "D": TripPhase.DROPOFF}
    tp = tuple((rid, ph[x]) for rid, x in plan)
    first = sim.requests[plan[0][0]]
    nxt = DispatchPoolingTrip.build("v0", tp, rn.route(v.position, first.position))
    err, s1 = entity_state_ops.transition_previous_to_next(sim, env, v.vehicle_state, nxt)
    if err is not None or s1 is None:
        return [("plan_refused", f"a valid plan was refused: {err}")], {"entered": False, "recorded": 0}
    sim = s1
    recorded = sum(1 for r in sim.requests.values() if r.dispatched_vehicle == "v0")
    bad = []
    if recorded != n:
        bad.append(("fresh_dispatch_not_on_record", f"after entering the plan {recorded} of its {n} requests record the vehicle"))
    for _ in range(k):
        if sim.vehicles["v0"].vehicle_state.__class__.__name__ != "DispatchPoolingTrip":
            break
        sim, _ = w.step(sim, ())
    still_dispatch = sim.vehicles["v0"].vehicle_state.__class__.__name__ == "DispatchPoolingTrip"
    if variant == "removed" and still_dispatch and plan[0][0] in sim.requests:
        sim = simulation_state_ops.remove_request_safe(sim, plan[0][0]).unwrap()
    sim, _ = w.step(sim, (("I", "Idle", "v0"),))
    v = sim.vehicles["v0"]
    vs = v.vehicle_state
    heading = set()
    if vs.__class__.__name__ in ("DispatchPoolingTrip", "ServicingPoolingTrip"):
        heading = {rid for rid, _ in vs.trip_plan}
    elif vs.__class__.__name__ == "DispatchTrip":
        heading = {vs.request_id}
    for rid, r in sorted(sim.requests.items()):
        if r.dispatched_vehicle == "v0" and rid not in heading:
            bad.append(("stale_record", f"{rid} records v0, which is {vs.__class__.__name__} after being stopped"))
    return bad, {"entered": True, "recorded": recorded, "stopped_while_dispatching": still_dispatch}


def run_c17(c: Check):
    cases = entered = stopped = 0
    seen = set()
    for n in (2, 3):
        for plan in plans(n):
            for k in (0, 1):
                for variant in ("stopped", "removed"):
                    bad, st = run_interrupted(plan, k, variant)
                    cases += 1
                    entered += 1 if st.get("entered") else 0
                    stopped += 1 if st.get("stopped_while_dispatching") else 0
                    for clause, msg in bad:
                        sig = (clause, "pooling_plan", variant)
                        if sig in seen:
                            continue
                        seen.add(sig)
                        c.add(Finding("C17", sig, f"pooling plan {['%s:%s' % p for p in plan]} entered through the state API, {k} step(s) of travel, {'the request it was heading for removed, ' if variant == 'removed' else ''}then stopped by an IdleInstruction: {msg}",
                                      {"engine": "enum_pooling", "plan": [list(p) for p in plan], "k": k, "variant": variant, "prop": "C17"}))
    c.coverage["interrupted_pooling_plans"] = {"cases": cases, "entered": entered, "stopped_while_still_dispatching": stopped,
                                               "rule": "every plan over 2..3 pooling requests (6 + 90) x {0, 1} steps of travel x {stopped, first request removed then stopped}"}
    c.coverage["states"] = c.coverage.get("states", 0) + cases
    c.coverage["transitions"] = c.coverage.get("transitions", 0) + cases
    if not stopped:
        c.vacuous.append("interrupted pooling plans: no vehicle was stopped while still dispatching")
    log(f"  C17 interrupted pooling plans: {cases} cases ({stopped} stopped while dispatching), {len(seen)} violation signatures")
