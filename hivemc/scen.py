"""
Generated scenarios as real input files (yaml + csv), loaded through the library's own load_scenario, so that
file parsing and initialisation order are inside the checks (C01, C15, C19, C20).
"""
from __future__ import annotations

import contextlib
import io
import os
import shutil
import sys
import tempfile
from typing import Any, Dict, Iterable, List, Optional, Sequence, Tuple

import h3
import yaml

from . import VERIF  # noqa: F401

from nrel.hive.reporting.handler.handler import Handler

from .canon import canon, canon_sim_full, digest


def scratch_dir(prefix: str = "hivemc_") -> str:
    base = "/dev/shm" if os.path.isdir("/dev/shm") and os.access("/dev/shm", os.W_OK) else os.path.join(VERIF, ".scratch")
    os.makedirs(base, exist_ok=True)
    return tempfile.mkdtemp(prefix=prefix, dir=base)


def latlon(cell: str) -> Tuple[str, str]:
    lat, lon = h3.h3_to_geo(cell)
    return repr(lat), repr(lon)


def iso(t: int) -> str:
    from datetime import datetime

    return datetime.utcfromtimestamp(int(t)).isoformat()


def write_global_config(d: str, log_events=False, log_stats=False, log_states=False, lazy=False, log_instructions=False):
    cfg = {
        "output_base_directory": os.path.join(d, "out"),
        "log_run": False,
        "log_states": bool(log_states),
        "log_events": bool(log_events),
        "log_kepler": False,
        "log_instructions": bool(log_instructions),
        "log_stats": bool(log_stats),
        "log_level": "CRITICAL",
        "log_station_capacities": False,
        "log_time_step_stats": False,
        "log_fleet_time_step_stats": False,
        "lazy_file_reading": bool(lazy),
        "verbose": False,
    }
    os.makedirs(os.path.join(d, "out"), exist_ok=True)
    with open(os.path.join(d, ".hive.yaml"), "w") as f:
        yaml.safe_dump(cfg, f)


def write_scenario(
    d: str,
    name: str = "gen",
    *,
    start: int = 0,
    end: int = 3600,
    step: int = 60,
    cancel: int = 600,
    vehicles: Sequence[dict] = (),
    requests: Sequence[tuple] = (),
    bases: Sequence[tuple] = (),
    stations: Sequence[tuple] = (),
    schedules: Sequence[tuple] = (),
    fleets: Optional[Dict[str, Dict[str, List[str]]]] = None,
    prices: Sequence[tuple] = (),
    price_key: str = "station_id",
    rate: Optional[Tuple[float, float, float]] = None,
    dispatcher: Optional[dict] = None,
    mechatronics_file: Optional[str] = None,
    search_res: int = 7,
    network: Optional[dict] = None,
    road_network_file: Optional[str] = None,
) -> str:
    os.makedirs(d, exist_ok=True)
    with open(os.path.join(d, "vehicles.csv"), "w") as f:
        f.write("vehicle_id,lat,lon,mechatronics_id,initial_soc,schedule_id,home_base_id\n")
        for v in vehicles:
            lat, lon = latlon(v["cell"])
            f.write(f"{v['id']},{lat},{lon},{v.get('mech', 'leaf_50')},{v.get('soc', 0.5)},{v.get('schedule_id') or ''},{v.get('home_base_id') or ''}\n")
    with open(os.path.join(d, "requests.csv"), "w") as f:
        cols = "request_id,o_lat,o_lon,d_lat,d_lon,departure_time,passengers"
        with_fleet = any(len(r) > 5 and r[5] for r in requests)
        f.write(cols + (",fleet_id" if with_fleet else "") + "\n")
        for r in requests:
            rid, oc, dc, dep = r[0], r[1], r[2], r[3]
            pax = r[4] if len(r) > 4 else 1
            olat, olon = latlon(oc)
            dlat, dlon = latlon(dc)
            line = f"{rid},{olat},{olon},{dlat},{dlon},{iso(dep)},{pax}"
            if with_fleet:
                line += f",{r[5]}"
            f.write(line + "\n")
    with open(os.path.join(d, "bases.csv"), "w") as f:
        f.write("base_id,lat,lon,station_id,stall_count\n")
        for bid, cell, sid, stalls in bases:
            lat, lon = latlon(cell)
            f.write(f"{bid},{lat},{lon},{sid or 'none'},{stalls}\n")
    with open(os.path.join(d, "stations.csv"), "w") as f:
        f.write("station_id,lat,lon,charger_count,charger_id,on_shift_access\n")
        for sid, cell, charger, count, on_shift in stations:
            lat, lon = latlon(cell)
            f.write(f"{sid},{lat},{lon},{count},{charger},{'true' if on_shift else 'false'}\n")
    inp: Dict[str, Any] = {
        "vehicles_file": "vehicles.csv",
        "requests_file": "requests.csv",
        "bases_file": "bases.csv",
        "stations_file": "stations.csv",
    }
    if schedules:
        with open(os.path.join(d, "schedules.csv"), "w") as f:
            f.write("schedule_id,start_time,end_time\n")
            for sid, a, b in schedules:
                f.write(f'{sid},"{a}","{b}"\n')
        inp["schedules_file"] = "schedules.csv"
    if fleets:
        with open(os.path.join(d, "fleets.yaml"), "w") as f:
            yaml.safe_dump({k: {"vehicles": list(v.get("vehicles", [])), "stations": list(v.get("stations", [])), "bases": list(v.get("bases", []))} for k, v in fleets.items()}, f)
        inp["fleets_file"] = "fleets.yaml"
    if prices:
        with open(os.path.join(d, "prices.csv"), "w") as f:
            f.write(f"time,{price_key},charger_id,price_kwh\n")
            for t, key, plug, price in prices:
                f.write(f"{iso(t)},{key},{plug},{price}\n")
        inp["charging_price_file"] = "prices.csv"
    if rate:
        with open(os.path.join(d, "rate.csv"), "w") as f:
            f.write("base_price,price_per_mile,minimum_price\n%s,%s,%s\n" % rate)
        inp["rate_structure_file"] = "rate.csv"
    if mechatronics_file:
        shutil.copy(mechatronics_file, os.path.join(d, "mechatronics.yaml"))
        inp["mechatronics_file"] = "mechatronics.yaml"
    if road_network_file:
        inp["road_network_file"] = road_network_file
    conf = {
        "sim": {
            "sim_name": name,
            "start_time": iso(start),
            "end_time": iso(end),
            "timestep_duration_seconds": step,
            "request_cancel_time_seconds": cancel,
            "sim_h3_resolution": 15,
            "sim_h3_search_resolution": search_res,
        },
        "network": network or {"network_type": "euclidean"},
        "input": inp,
        "dispatcher": dispatcher or {},
    }
    path = os.path.join(d, f"{name}.yaml")
    with open(path, "w") as f:
        yaml.safe_dump(conf, f)
    return path


@contextlib.contextmanager
def in_dir(d: str):
    old = os.getcwd()
    os.chdir(d)
    try:
        yield
    finally:
        os.chdir(old)


@contextlib.contextmanager
def quiet_stdout():
    old = sys.stdout
    sys.stdout = io.StringIO()
    try:
        yield
    finally:
        sys.stdout = old


def launch_dir_with_stray_assets(d: str) -> str:
    """a working directory BELOW the scenario directory (so that the scenario's .hive.yaml is still the global configuration found
    by the upward search) that happens to hold files named like the library's packaged default assets, with other contents: a
    process started there must run the scenario exactly like a process started anywhere else"""
    import pkg_resources

    ld = os.path.join(d, "launched_from_here")
    if os.path.isdir(ld):
        return ld
    os.makedirs(ld)
    src = pkg_resources.resource_filename("nrel.hive.resources.mechatronics", "mechatronics.yaml")
    with open(src) as f:
        mech = yaml.safe_load(f)
    for m in mech.values():
        for k in ("battery_capacity_kwh", "tank_capacity_gallons", "idle_kwh_per_hour", "idle_gallons_per_hour"):
            if k in m:
                m[k] = m[k] * 0.6
    with open(os.path.join(ld, "mechatronics.yaml"), "w") as f:
        yaml.safe_dump(mech, f)
    src = pkg_resources.resource_filename("nrel.hive.resources.chargers", "default_chargers.csv")
    rows = open(src).read().splitlines()
    with open(os.path.join(ld, "default_chargers.csv"), "w") as f:
        f.write(rows[0] + "\n")
        for r in rows[1:]:
            c = r.split(",")
            c[2] = repr(float(c[2]) * 0.5)
            f.write(",".join(c) + "\n")
    for pkg in ("powercurve", "powertrain", "schedules"):
        pdir = pkg_resources.resource_filename(f"nrel.hive.resources.{pkg}", "")
        for fn in os.listdir(pdir):
            if fn.endswith((".yaml", ".csv")):
                shutil.copy(os.path.join(pdir, fn), os.path.join(ld, fn))
    return ld


def load(path: str, suffix: str = "run", generators=None, init_functions=None, cwd: Optional[str] = None):
    """load_scenario with the scenario directory as cwd (so that its .hive.yaml is the global config); cwd: another working
    directory (below the scenario directory) to launch from"""
    from nrel.hive.app import hive_cosim

    d = cwd or os.path.dirname(path)
    with in_dir(d), quiet_stdout():
        return hive_cosim.load_scenario(path, custom_instruction_generators=generators, custom_init_functions=init_functions, output_suffix=suffix)


# ---------------------------------------------------------------------------------------------------
# observation


EVENT_DROP = {"session_id"}


def canon_event(report) -> tuple:
    """one report as a hashable, order-free value: per-run random tags dropped, set-valued fields sorted"""
    items = []
    for k, v in report.report.items():
        if k in EVENT_DROP:
            continue
        if k in ("vehicle_memberships",) and isinstance(v, (list, tuple, set, frozenset)):
            v = tuple(sorted(v))
        if k == "fleet_id":
            if hasattr(v, "memberships"):
                v = ",".join(sorted(v.memberships))
            elif isinstance(v, str):
                v = ",".join(sorted(v.split(","))) if v else ""
        items.append((str(k), repr(canon(v))))
    return (report.report_type.name, tuple(sorted(items)))


class Recorder(Handler):
    """sees the payload at every flush: per-step state fingerprint and event multiset"""

    def __init__(self, keep_states: bool = False, float_digits: int = 9):
        self.steps: List[dict] = []
        self.keep_states = keep_states

    def handle(self, reports, runner_payload):
        sim = runner_payload.s
        evs = sorted(canon_event(r) for r in reports)
        rec = {
            "sim_time": int(sim.sim_time),
            "state": digest(canon_sim_full(sim)),
            "events": digest(evs),
            "n_events": len(evs),
        }
        if self.keep_states:
            rec["state_full"] = canon_sim_full(sim)
            rec["events_full"] = evs
        self.steps.append(rec)

    def close(self, runner_payload):
        pass
