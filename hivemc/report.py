"""
Evidence files, known findings, replay artefacts and the exit-status contract shared by all checks.

exit 0  property held on everything explored (known findings are printed as KNOWN-FINDING lines)
exit 1  at least one violation not listed in known_findings.json  (one VIOLATION line each)
exit 2  the harness itself failed (never a property verdict)
"""
from __future__ import annotations

import hashlib
import json
import os
import sys
import time
from typing import Any, Dict, Iterable, List, Optional, Sequence, Tuple

from . import VERIF, seed, tier

EVIDENCE_DIR = os.path.join(VERIF, "evidence")
REPLAY_DIR = os.path.join(VERIF, "replays")
KNOWN = os.path.join(VERIF, "known_findings.json")


def log(msg: str):
    print(msg, flush=True)


def load_known() -> dict:
    try:
        with open(KNOWN) as f:
            return json.load(f)
    except FileNotFoundError:
        return {"open": [], "fixed": []}


def match_known(prop: str, signature: Sequence) -> Optional[dict]:
    """a finding matches when its 'signature' list is a prefix-wise match ('*' = wildcard) of the violation's"""
    sig = [str(x) for x in signature]
    for f in load_known().get("open", []):
        if f.get("property") != prop:
            continue
        pat = [str(x) for x in f.get("signature", [])]
        if len(pat) > len(sig):
            continue
        if all(p == "*" or p == s for p, s in zip(pat, sig)):
            return f
    return None


class Finding:
    """one violation found by any engine, with everything needed to replay it"""

    def __init__(self, prop: str, signature: Sequence, message: str, replay: dict):
        self.prop = prop
        self.signature = [str(x) for x in signature]
        self.message = message
        self.replay = replay  # engine-specific, JSON-able; must contain "engine"

    def write(self) -> str:
        os.makedirs(REPLAY_DIR, exist_ok=True)
        body = {
            "property": self.prop,
            "signature": self.signature,
            "message": self.message,
            "replay": self.replay,
        }
        h = hashlib.sha1(json.dumps([self.prop, self.signature], sort_keys=True).encode()).hexdigest()[:10]
        path = os.path.join(REPLAY_DIR, f"{self.prop}-{h}.json")
        with open(path, "w") as f:
            json.dump(body, f, indent=1, default=str)
        with open(path[:-5] + ".py", "w") as f:
            f.write(
                "#!/venv/bin/python\n"
                '"""replays one counterexample linearly against the repository, without the explorer"""\n'
                "import os, sys\n"
                f"sys.path.insert(0, {VERIF!r})\n"
                "from hivemc.replay import replay_file\n"
                f"sys.exit(replay_file(os.path.join(os.path.dirname(os.path.abspath(__file__)), {os.path.basename(path)!r})))\n"
            )
        return path


class Check:
    """collects coverage + findings of one check run and finishes with evidence and exit status"""

    def __init__(self, prop: str, technique: str):
        self.prop = prop
        self.technique = technique
        self.t0 = time.time()
        self.findings: Dict[Tuple, Finding] = {}
        self.coverage: Dict[str, Any] = {}
        self.assumptions: List[str] = []
        self.vacuous: List[str] = []
        self.exhaustive = False
        self.notes: List[str] = []

    def add(self, finding: Finding):
        key = tuple(finding.signature)
        if key not in self.findings:
            self.findings[key] = finding

    def finish(self) -> int:
        wall = time.time() - self.t0
        new, known = [], []
        for f in self.findings.values():
            k = match_known(self.prop, f.signature)
            (known if k else new).append((f, k))
        printed = set()
        for f, k in known:
            if k["id"] not in printed:
                printed.add(k["id"])
                log(f"KNOWN-FINDING: property={self.prop} {k['what']}")
        paths = []
        for f, _ in new:
            p = f.write()
            paths.append(p)
            log(f"VIOLATION property={self.prop} replay={p}")
            log(f"   signature: {' | '.join(f.signature)}")
            log(f"   {f.message}")
        cov = dict(self.coverage)
        cov.setdefault("exhaustive", bool(self.exhaustive and not self.vacuous))
        if self.vacuous:
            cov["vacuous_cells"] = self.vacuous
            for c in self.vacuous:
                log(f"VACUOUS {c}")
        cov["known_findings_observed"] = sorted(printed)
        cov["new_violation_signatures"] = [f.signature for f, _ in new]
        ev = {
            "property_id": self.prop,
            "tier": tier(),
            "seed": seed(),
            "level": "model_checking",
            "coverage": cov,
            "assumptions": self.assumptions,
            "wall_s": round(wall, 2),
            "violations": len(new),
            "technique": self.technique,
            "repo": os.environ.get("VERIF_REPO", "/repo"),
            "notes": self.notes,
        }
        os.makedirs(EVIDENCE_DIR, exist_ok=True)
        out = os.path.join(EVIDENCE_DIR, f"{self.prop}.json")
        if os.environ.get("VERIF_EVIDENCE_DIR"):
            os.makedirs(os.environ["VERIF_EVIDENCE_DIR"], exist_ok=True)
            out = os.path.join(os.environ["VERIF_EVIDENCE_DIR"], f"{self.prop}.json")
        with open(out, "w") as f:
            json.dump(ev, f, indent=1, default=str)
        log(
            f"{self.prop}: {'FAIL' if new else 'ok'} tier={tier()} seed={seed()} wall={wall:.1f}s "
            f"new_violations={len(new)} known={len(printed)} evidence={out}"
        )
        return 1 if new else 0
