"""
Process primer: before an exploration starts, the same library code is exercised once under a DIFFERENT configuration
(30 s steps, search resolution 9, another price / fare level, a fast street grid sharing link ids with W-grid) in this
very process.  Whatever the library remembers across simulations in module-level objects (memo tables keyed without
the configuration, mutable default arguments, class attributes) is then primed with foreign values and shows up as a
violation in the exploration proper -- on every run, independent of scheduling.  The pool workers are forked after
priming, so they inherit the primed process.
"""
from __future__ import annotations

_DONE = False


def prime_process():
    global _DONE
    if _DONE:
        return
    _DONE = True
    try:
        from nrel.hive.model.request import RequestRateStructure
        from nrel.hive.model.roadnetwork.haversine_roadnetwork import HaversineRoadNetwork

        from .nets import build
        from .worlds import World, build_sim, make_config, make_env, mk_base, mk_station, mk_vehicle, sites

        S = sites()
        for rn_spec in (None, ("grid", (130,) * 7, (1,) * 7, ())):
            w = World()
            cfg = make_config(step=30, cancel=90, idle_timeout=60, search_res=9)
            w.env = make_env(cfg)
            rn = HaversineRoadNetwork(sim_h3_resolution=15) if rn_spec is None else build(rn_spec)
            if rn_spec is None:
                cells = [S["A"], S["N1"], S["X1"], S["M1"]]
            else:
                links = sorted(rn.link_helper.links)
                cells = [rn.link_helper.links[l].start for l in links[:4]]
            w.rn = rn
            s0 = mk_station(w.env, rn, "s0", cells[1], {"DCFC": 1, "LEVEL_2": 1})
            b0 = mk_base(rn, "b0", cells[2], stalls=1, station_id="s0")
            v0 = mk_vehicle(w.env, rn, "v0", cells[0], "thirsty", soc=0.4)
            v1 = mk_vehicle(w.env, rn, "v1", cells[3], "small", energy=0.5)
            sim = build_sim(w.env, rn, vehicles=(v0, v1), stations=(s0,), bases=(b0,), start=7 * 3600)
            w.starts = {"init": sim}
            w.request_specs = {"r0": {"origin": cells[1], "destination": cells[3]}}
            w.price_rows = {"p": {"station_id": "s0", "charger_id": "DCFC", "price_kwh": "9.75"}}
            w.rate_structure = RequestRateStructure(base_price=7.0, price_per_mile=3.0, minimum_price=9.0)
            script = [
                (("I", "DispatchStation", "v0", "s0", "DCFC"), ("R", "r0")),
                (("I", "DispatchTrip", "v1", "r0"), ("P", "p")),
                (),
                (("I", "DispatchStation", "v1", "s0", "DCFC"),),
                (),
                (("I", "DispatchBase", "v0", "b0"),),
                (),
                (),
            ]
            for evs in script:
                try:
                    sim, _ = w.step(sim, evs)
                except Exception:
                    break
    except Exception:
        # priming must never decide anything by itself
        pass
