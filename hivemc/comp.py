"""
COMP -- C15: the clock advances uniformly and stepping composes.

The schedule is the sequence of co-simulation calls: ALL 2^(N-1) compositions of N steps into successive
hive_cosim.crank(rp, k) calls are enumerated, each from a freshly loaded payload, plus LocalSimulationRunner.run
over the same interval and LocalSimulationRunner.step repeated until it returns None, for end times that are and
are not a multiple of the step.  Oracle: per-step state fingerprints and event multisets (taken by a Handler at
every flush) are identical across all of them; the clock reads start + i*step after step i.
"""
from __future__ import annotations

import itertools
import os
import shutil
from dataclasses import dataclass, replace
from typing import Any, Dict, List, Tuple

import yaml

from . import seed, tier
from .enumrun import pmap, rotate
from .report import Check, Finding, log
from .scen import Recorder, in_dir, load, quiet_stdout, scratch_dir
from . import scenarios

from nrel.hive.dispatcher.instruction.instructions import IdleInstruction, RepositionInstruction
from nrel.hive.dispatcher.instruction_generator.charging_fleet_manager import ChargingFleetManager
from nrel.hive.dispatcher.instruction_generator.dispatcher import Dispatcher
from nrel.hive.dispatcher.instruction_generator.instruction_generator import InstructionGenerator


@dataclass(frozen=True)
class Stateful(InstructionGenerator):
    """a controller with memory, as in examples/cosim_custom_dispatcher.py (deterministic instead of random)"""

    calls: int = 0

    def generate_instructions(self, simulation_state, environment):
        vehicles = simulation_state.get_vehicles()
        instr = ()
        if vehicles and self.calls % 3 == 1:
            v = vehicles[self.calls % len(vehicles)]
            if v.vehicle_state.__class__.__name__ in ("Idle", "Repositioning"):
                other = vehicles[(self.calls + 1) % len(vehicles)]
                instr = (RepositionInstruction(v.id, other.position.link_id),)
        if vehicles and self.calls % 5 == 4:
            instr = instr + (IdleInstruction(vehicles[(self.calls // 5) % len(vehicles)].id),)
        return replace(self, calls=self.calls + 1), instr


SCENS = {"S1": ("S1", False), "S2": ("S2", False), "S3": ("S3", False), "S2+custom": ("S2", True), "S3/lazy": ("S3", False), "S2t": ("S2t", False),
         # the same scenario under a step length that is not the 60 s every other scenario (and every default) uses
         "S1/step45": ("S1", False)}


def prepare(d: str, scen: str, n: int, odd_end: bool) -> str:
    base, _ = SCENS[scen]
    builder, _ = scenarios.BUILDERS[base]
    path = builder(d, lazy=scen.endswith("/lazy"))
    with open(path) as f:
        conf = yaml.safe_load(f)
    if scen.endswith("/step45"):
        conf["sim"]["timestep_duration_seconds"] = 45
    step = int(conf["sim"]["timestep_duration_seconds"])
    end = n * step - (17 if odd_end else 0)
    from .scen import iso

    conf["sim"]["end_time"] = iso(end)
    with open(path, "w") as f:
        yaml.safe_dump(conf, f)
    return path


def fresh(path: str, scen: str, suffix: str, keep: bool = False):
    gens = None
    if SCENS[scen][1]:
        rp0 = load(path, suffix=suffix + "cfg")
        cfg = rp0.e.config.dispatcher
        gens = (Dispatcher(cfg), ChargingFleetManager(cfg), Stateful())
    rp = load(path, suffix=suffix, generators=gens)
    rec = Recorder(keep_states=keep)
    rp.e.reporter.add_handler(rec)
    return rp, rec


def trace(rec: Recorder) -> List[Tuple[int, str, str]]:
    return [(s["sim_time"], s["state"], s["events"]) for s in rec.steps]


def run_composition(path: str, scen: str, comp: Tuple[int, ...], suffix: str):
    from nrel.hive.app import hive_cosim
    from nrel.hive.runner.runner_payload_ops import get_instruction_generator, update_instruction_generator

    rp, rec = fresh(path, scen, suffix)
    times = [int(rp.s.sim_time)]
    from nrel.hive.reporting.handler.vehicle_charge_events_handler import VehicleChargeEventsHandler

    channel = [h for h in rp.e.reporter.handlers if isinstance(h, VehicleChargeEventsHandler)]
    windows: List[tuple] = []
    for k in comp:
        res = hive_cosim.crank(rp, k)
        rp = res.runner_payload
        if channel:
            # the co-simulation's own event channel, used the way a grid co-simulation does: read the window, then clear it
            ev = channel[0].get_events()
            windows.append(tuple(zip(*(list(ev[c]) for c in ("vehicle_id", "sim_time_start", "sim_time_end", "energy", "units")))))
            channel[0].clear()
        if int(res.sim_time) != int(rp.s.sim_time):
            raise AssertionError("CrankResult.sim_time differs from the payload's clock")
        times.append(int(rp.s.sim_time))
        if SCENS[scen][1]:
            g = get_instruction_generator(rp, Stateful)
            rp = update_instruction_generator(rp, g)  # re-inject unchanged, as a co-simulation driver would
    run_composition.windows = windows  # (side channel for the caller; run_composition's signature is used by the replay)
    return trace(rec), times


def _shard(shard) -> Dict[str, Any]:
    scen, n, odd_end, part, nparts = shard
    from nrel.hive.runner import LocalSimulationRunner

    d = scratch_dir("hivemc_comp_")
    out = {"runs": 0, "steps": 0, "findings": {}, "distinct": set(), "samples": []}
    try:
        path = prepare(d, scen, n, odd_end)
        with open(path) as f:
            conf = yaml.safe_load(f)
        step = int(conf["sim"]["timestep_duration_seconds"])
        ref, _ = run_composition(path, scen, (n,), "ref")
        ref_channel = [e for w in run_composition.windows for e in w]
        out["channel_events"] = len(ref_channel)
        out["runs"] += 1
        rpdata = {"scenario": scen, "n": n, "odd_end": odd_end}
        if len(ref) != n:
            out["findings"][("steps_flushed", scen)] = (f"{scen}: crank(rp, {n}) flushed {len(ref)} steps", dict(rpdata, composition=[n]))
        for i, (t, _, _) in enumerate(ref):
            if t != (i + 1) * step:
                out["findings"].setdefault(("clock", scen), (f"{scen}: after step {i+1} the clock reads {t}, expected {(i+1)*step}", dict(rpdata, composition=[n])))
        out["distinct"].add(tuple(ref))
        idx = 0
        for cuts in itertools.product((0, 1), repeat=n - 1):
            idx += 1
            if idx % nparts != part:
                continue
            comp, run = [], 1
            for c in cuts:
                if c:
                    comp.append(run)
                    run = 1
                else:
                    run += 1
            comp.append(run)
            comp = tuple(comp)
            if comp == (n,):
                continue
            tr, times = run_composition(path, scen, comp, f"c{idx}")
            out["runs"] += 1
            out["steps"] += n
            out["distinct"].add(tuple(tr))
            if tr != ref:
                k = next((i for i, (a, b) in enumerate(zip(tr, ref)) if a != b), min(len(tr), len(ref)))
                what = "length" if k >= min(len(tr), len(ref)) else ("clock" if tr[k][0] != ref[k][0] else "state" if tr[k][1] != ref[k][1] else "events")
                out["findings"].setdefault(("composition", scen, what), (f"{scen}: crank calls {list(comp)} differ from one crank({n}) at step {k+1} ({what})", dict(rpdata, composition=list(comp))))
            got_channel = [e for w in run_composition.windows for e in w]
            if got_channel != ref_channel:
                out["findings"].setdefault(("charge_event_channel", scen), (f"{scen}: the co-simulation charge-event channel, read and cleared after each of the calls {list(comp)}, delivers {len(got_channel)} events in all; one crank({n}) delivers {len(ref_channel)}" + (" (events delivered again after clear())" if len(got_channel) > len(ref_channel) else ""), dict(rpdata, composition=list(comp))))
            exp_times = [0] + list(itertools.accumulate(k * step for k in comp))
            if times != exp_times:
                out["findings"].setdefault(("clock_between_calls", scen), (f"{scen}: clock after calls {list(comp)} reads {times}, expected {exp_times}", dict(rpdata, composition=list(comp))))
            if len(out["samples"]) < 1 and len(comp) >= 3:
                out["samples"].append({"scenario": scen, "composition": list(comp), "odd_end": odd_end})
        if part == 0:
            # the batch runner over the same interval
            rp, rec = fresh(path, scen, "runner")
            with quiet_stdout():
                import contextlib, io, sys

                err = sys.stderr
                sys.stderr = io.StringIO()
                try:
                    final = LocalSimulationRunner.run(rp)
                finally:
                    sys.stderr = err
            out["runs"] += 1
            tr = trace(rec)
            out["distinct"].add(tuple(tr))
            if tr != ref:
                k = next((i for i, (a, b) in enumerate(zip(tr, ref)) if a != b), min(len(tr), len(ref)))
                out["findings"].setdefault(("runner_run", scen), (f"{scen}: LocalSimulationRunner.run gives {len(tr)} steps and differs from crank({n}) at step {k+1}", dict(rpdata, composition=["run"])))
            end = int(final.e.config.sim.end_time)
            if not (int(final.s.sim_time) >= end and int(final.s.sim_time) - step < end):
                out["findings"].setdefault(("runner_interval", scen), (f"{scen}: run() stopped at {int(final.s.sim_time)} with end_time {end} and step {step}", dict(rpdata, composition=["run"])))
            # a run that is begun by co-simulation calls and finished by the batch runner covers the same interval
            for a in (1, n // 2):
                rp, rec = fresh(path, scen, f"mixed{a}")
                from nrel.hive.app import hive_cosim as _hc

                rp = _hc.crank(rp, a).runner_payload
                with quiet_stdout():
                    err = sys.stderr
                    sys.stderr = io.StringIO()
                    try:
                        final2 = LocalSimulationRunner.run(rp)
                    finally:
                        sys.stderr = err
                out["runs"] += 1
                tr = trace(rec)
                if not (int(final2.s.sim_time) >= end and int(final2.s.sim_time) - step < end):
                    out["findings"].setdefault(("runner_interval", scen, "after_crank"), (f"{scen}: crank({a}) followed by run() stopped at {int(final2.s.sim_time)} with end_time {end} and step {step} ({len(tr)} steps in all)", dict(rpdata, composition=[a, "run"])))
                elif tr != ref:
                    out["findings"].setdefault(("runner_run", scen, "after_crank"), (f"{scen}: crank({a}) followed by run() differs from crank({n})", dict(rpdata, composition=[a, "run"])))
            # calls that do not flush (crank(..., flush_events=False), what a co-simulation does between two of its own logging
            # points) followed by calls that do: the reports wait in the reporter; once flushed, the run has reported exactly the events
            # of one crank(n) -- none lost, none twice -- and the states seen at the flushes are the single call's states
            rp, rec = fresh(path, scen, "refkeep", keep=True)
            _hc.crank(rp, n)
            ref_events = sorted(e for st in rec.steps for e in st["events_full"])
            ref_states = {st["sim_time"]: st["state"] for st in rec.steps}
            for a in sorted({1, n // 2, n - 1}):
                rp, rec = fresh(path, scen, f"defer{a}", keep=True)
                rp = _hc.crank(rp, a, flush_events=False).runner_payload
                rp = _hc.crank(rp, n - a).runner_payload
                out["runs"] += 1
                got_events = sorted(e for st in rec.steps for e in st["events_full"])
                if got_events != ref_events:
                    out["findings"].setdefault(("deferred_flush", scen, "events"), (f"{scen}: crank({a}, flush_events=False) followed by crank({n - a}) reports {len(got_events)} events in all, one crank({n}) reports {len(ref_events)}" + ("" if len(got_events) != len(ref_events) else " (same number, different events)"), dict(rpdata, composition=[f"{a} unflushed", n - a])))
                if any(ref_states.get(st["sim_time"]) != st["state"] for st in rec.steps) or len(rec.steps) != n - a:
                    out["findings"].setdefault(("deferred_flush", scen, "states"), (f"{scen}: crank({a}, flush_events=False) followed by crank({n - a}) flushes {len(rec.steps)} states that differ from those of one crank({n})", dict(rpdata, composition=[f"{a} unflushed", n - a])))
            # step() until it refuses
            rp, rec = fresh(path, scen, "stepper")
            count = 0
            while True:
                nxt = LocalSimulationRunner.step(rp)
                should_refuse = int(rp.s.sim_time) >= end
                if (nxt is None) != should_refuse:
                    out["findings"].setdefault(("step_refusal", scen), (f"{scen}: step() at clock {int(rp.s.sim_time)} with end_time {end} returned {'None' if nxt is None else 'a payload'}", dict(rpdata, composition=["step"])))
                    break
                if nxt is None:
                    break
                rp = nxt
                count += 1
                if count > n + 3:
                    break
            out["runs"] += 1
            tr = trace(rec)
            if tr != ref:
                out["findings"].setdefault(("runner_step", scen), (f"{scen}: repeated step() gives {len(tr)} steps and differs from crank({n})", dict(rpdata, composition=["step"])))
            # refusing again must keep refusing and change nothing
            if LocalSimulationRunner.step(rp) is not None:
                out["findings"].setdefault(("step_refusal", scen), (f"{scen}: step() accepted a step beyond end_time", dict(rpdata, composition=["step"])))
    finally:
        shutil.rmtree(d, ignore_errors=True)
    out["findings"] = [(list(k), m, rp2) for k, (m, rp2) in out["findings"].items()]
    out["distinct"] = len(out["distinct"])
    return out


def _long_shard(shard) -> Dict[str, Any]:
    """a long stretch of a shipped scenario (20 vehicles) without a single flush, then one flushed step: everything the run
    reported meanwhile (well over ten thousand reports wait in the reporter) comes out at that flush, exactly the events that the
    same number of flushed steps reports -- volume is the one thing the 10-step compositions cannot reach"""
    name, n = shard
    from nrel.hive.app import hive_cosim as _hc

    d = scratch_dir("hivemc_comp_long_")
    out = {"runs": 2, "steps": 2 * (n + 1), "findings": {}, "distinct": 1, "samples": [], "pending": 0}
    try:
        path = scenarios.BUILDERS[name][0](d)

        def recorder(suffix):
            rp = load(path, suffix=suffix)
            rec = Recorder(keep_states=True)
            rp.e.reporter.add_handler(rec)
            return rp, rec

        rp, rec = recorder("ref")
        ref_final = _hc.crank(rp, n + 1).runner_payload
        ref_events = sorted(e for st in rec.steps for e in st["events_full"])
        ref_state = rec.steps[-1]["state"]
        rp, rec = recorder("deferred")
        rp = _hc.crank(rp, n, flush_events=False).runner_payload
        out["pending"] = len(rp.e.reporter.reports)
        rp = _hc.crank(rp, 1).runner_payload
        got_events = sorted(e for st in rec.steps for e in st["events_full"])
        rpdata = {"scenario": name, "n": n, "long": True}
        if got_events != ref_events:
            out["findings"][("deferred_flush", name, "events", "long_run")] = (f"{name}: crank({n}, flush_events=False) followed by crank(1) reports {len(got_events)} events in all, crank({n + 1}) reports {len(ref_events)}", rpdata)
        if len(rec.steps) != 1 or rec.steps[-1]["state"] != ref_state or int(rp.s.sim_time) != int(ref_final.s.sim_time):
            out["findings"][("deferred_flush", name, "states", "long_run")] = (f"{name}: the state after crank({n}, flush_events=False) and crank(1) differs from the state after crank({n + 1})", rpdata)
    finally:
        shutil.rmtree(d, ignore_errors=True)
    out["findings"] = [(list(k), m, rp2) for k, (m, rp2) in out["findings"].items()]
    return out


def c15() -> int:
    c = Check("C15", "exhaustive enumeration of all compositions of an N-step run into successive crank calls (implementation-level), plus both batch-runner entry points")
    quick = tier() == "quick"
    n = 10 if quick else 13
    nparts = 8 if quick else 32
    shards = [(sc, n, odd, p, nparts) for sc in SCENS for odd in (False, True) for p in range(nparts)]
    res = pmap(_shard, rotate(shards, seed()))
    long_runs = [("S5", 960)] if quick else [("S5", 2400), ("S6", 2400)]
    lres = pmap(_long_shard, long_runs)
    res = res + lres
    for r in res:
        for sig, msg, rp in r["findings"]:
            c.add(Finding("C15", sig, msg, dict(rp, engine="comp")))
    runs = sum(r["runs"] for r in res)
    comps = 2 ** (n - 1)
    c.coverage.update(
        {
            "states": runs * n,
            "transitions": runs * n,
            "traces_validated_against_impl": runs,
            "evaluations": runs,
            "distinct_nontrivial": len(SCENS) * 2 * (comps - 1),
            "rule": f"all {comps} compositions of N={n} steps into successive crank(rp,k) calls x {len(SCENS)} scenarios ({list(SCENS)}; one with a stateful custom generator re-injected between calls, one with lazy file reading) x end_time multiple / not a multiple of the step, each from a freshly loaded payload; plus LocalSimulationRunner.run and repeated .step(); non-trivial = compositions with more than one call",
            "compositions_per_scenario": comps,
            "deferred_flush": "per scenario crank(a, flush_events=False) + crank(N-a) for a in {1, N/2, N-1}: same events in all, same flushed states; long runs " + ", ".join(f"{nm}: {k} unflushed steps ({r['pending']} reports pending) + 1 flushed vs {k + 1} flushed" for (nm, k), r in zip(long_runs, lres)),
            "max_distinct_traces_in_a_shard": max(r["distinct"] for r in res),
            "samples": [s for r in res for s in r["samples"]][:3],
        }
    )
    c.exhaustive = True
    c.assumptions += ["the first N steps of each scenario (requests, prices, charging and shift changes all start inside them)"]
    log(f"  C15: {runs} runs of {n} steps ({comps} compositions x {len(SCENS)} scenarios x 2 end times + runners); max distinct traces per shard {max(r['distinct'] for r in res)}")
    return c.finish()


def replay(body) -> int:
    rp = body["replay"]
    r = _long_shard((rp["scenario"], rp["n"])) if rp.get("long") else _shard((rp["scenario"], rp["n"], rp["odd_end"], 0, 1))
    for sig, msg, _ in r["findings"]:
        print(" | ".join(sig), "::", msg)
    if r["findings"]:
        print(f"VIOLATION property=C15 replay={body.get('_path')}")
        return 1
    print("not reproduced on this tree")
    return 0
