"""
W-res: the general resource world (DESIGN.md C02/C05/C07/C09/C16).

  A   v0 (quiet, 50 % charge)                                     origin
  N1  station s0 {DCFC:1, LEVEL_2:1}; v1 (small battery, nearly full) stands on it
  X1  base b0 (1 stall) with station bs {LEVEL_2:1}; v2 stands on it (other search cell)
  M1  base b1 (1 stall, no station), two steps from A (remote)
  F1  station s1 {DCFC:1}, 3+ steps away (remote)
  request r0: A-side origin N2 -> destination M2 (2-step trip), released by the environment

One plug per type and one stall per base, so any two vehicles contend.
"""
from __future__ import annotations

from typing import List

from .worlds import (
    World,
    build_sim,
    make_config,
    make_env,
    mk_base,
    mk_station,
    mk_vehicle,
    sites,
)
from nrel.hive.model.roadnetwork.haversine_roadnetwork import HaversineRoadNetwork


class ResWorld(World):
    name = "W-res"

    def __init__(self, variant: str = "full", low_energy: bool = True, pairs: bool = True, prices: bool = False,
                 mechs=("quiet", "small", "quiet"), idle_timeout: int = 120, gas: bool = False, name: str = "", atomic_pairs: bool = False, v0_energy=None, split_base: bool = False, throttle: float = 1.0, slots: int = 1, twin_base: bool = False, auto: str = "", v2_energy=None, s1_site: str = "F1", v2_site: str = "X1", queued_start: bool = False, bs_two_plugs: bool = False, decoy_station: bool = False):
        super().__init__()
        self.pairs = pairs
        if name:
            self.name = name
        S = sites()
        self.S = S
        # auto: the built-in Dispatcher + ChargingFleetManager run beside the scripted controller; "stc" selects the second
        # station-search strategy (shortest_time_to_charge), whose ranking replays the sessions of plugged and queued vehicles
        dconf = None
        if auto:
            dconf = {"matching_range_km_threshold": 0.0, "charging_range_km_threshold": 1.0, "charging_range_km_soft_threshold": 6.0,
                     "max_search_radius_km": 20.0}
            if auto == "stc":
                dconf["charging_search_type"] = "shortest_time_to_charge"
        cfg = make_config(step=60, cancel=240, idle_timeout=idle_timeout, dispatcher=dconf)
        self.env = make_env(cfg)
        if auto:
            from nrel.hive.dispatcher.instruction_generator.charging_fleet_manager import ChargingFleetManager
            from nrel.hive.dispatcher.instruction_generator.dispatcher import Dispatcher

            self.builtin_generators = (Dispatcher(cfg.dispatcher), ChargingFleetManager(cfg.dispatcher))
        rn = HaversineRoadNetwork(sim_h3_resolution=15)
        self.rn = rn
        env = self.env
        s0 = mk_station(env, rn, "s0", S["N1"], {"DCFC": slots, "LEVEL_2": 1, "GAS_PUMP": 1} if gas else {"DCFC": slots, "LEVEL_2": 1}, one_row_per_plug=slots > 1)
        s1 = mk_station(env, rn, "s1", S[s1_site], {"DCFC": 1})
        # bs_two_plugs: the station that serves base b0 (same cell) has a fast plug as well -- a vehicle plugged in at the station on one
        # plug type may be told to charge through the base on the other
        bs = mk_station(env, rn, "bs", S["X1"], {"LEVEL_2": slots, "DCFC": slots} if bs_two_plugs else {"LEVEL_2": slots}, one_row_per_plug=slots > 1)
        # slots > 1: resources shared by several holders at once (a second release is not stopped by the count guard)
        b0 = mk_base(rn, "b0", S["X1"], stalls=slots, station_id="bs")
        # split_base: base b1 (on M1) is served by station s0, which stands on another cell (N1) -- the input files allow it
        b1 = mk_base(rn, "b1", S["M1"], stalls=1, station_id="s0" if split_base else None)
        v0 = mk_vehicle(env, rn, "v0", S["A"], mechs[0], soc=0.5, energy=0.10 if (low_energy and mechs[0] != "ice") else None)
        if v0_energy is not None:
            v0 = mk_vehicle(env, rn, "v0", S["A"], mechs[0], energy=v0_energy)
        v1 = mk_vehicle(env, rn, "v1", S["N1"], mechs[1], energy=0.70 if mechs[1] == "small" else None)
        v2 = mk_vehicle(env, rn, "v2", S["X1"], mechs[2], soc=0.5, energy=0.05 if mechs[2] == "ice" else None)
        if v2_energy is not None:
            v2 = mk_vehicle(env, rn, "v2", S[v2_site], mechs[2], energy=v2_energy)
        if throttle < 1.0:
            # the station's DCFC plug was throttled at run time (grid co-simulation hook): 12 kW instead of 50 kW
            s0 = s0.scale_charger_rate("DCFC", throttle).unwrap()
            bs = bs.scale_charger_rate("LEVEL_2", throttle).unwrap()
        if prices:
            # non-round tariffs from the start (through the station's own update_prices), changed later by price rows
            import immutables

            _, s0 = s0.update_prices(immutables.Map({"DCFC": 0.2113, "LEVEL_2": 0.0917, "GAS_PUMP": 3.079}))
            _, bs = bs.update_prices(immutables.Map({"LEVEL_2": 0.0531}))
        stations, bases = [s0, s1, bs], [b0, b1]
        if twin_base:
            # a second base on the SAME cell as b1 (a charging bay next to a parking lot without plugs), with a plug of its own;
            # a vehicle parked at b1 has a silent driver (nothing to charge at there), so a controller's cross-base instruction
            # takes effect
            stations.append(mk_station(env, rn, "bs2", S["M1"], {"LEVEL_2": 1}))
            bases.append(mk_base(rn, "b2", S["M1"], stalls=1, station_id="bs2"))
        if decoy_station:
            # a kerb-side station of another operator on the base's own cell whose id sorts BEFORE the id of the station that serves the
            # base, with another tariff: charging through the base is the serving station's business alone
            import immutables as _im

            a0 = mk_station(env, rn, "a0", S["X1"], {"LEVEL_2": 1})
            _, a0 = a0.update_prices(_im.Map({"LEVEL_2": 0.4441}))
            stations.append(a0)
        sim = build_sim(env, rn, vehicles=(v0, v1, v2), stations=tuple(stations), bases=tuple(bases))
        self.starts = {"init": sim}
        self.request_specs = {"r0": {"origin": S["N2"], "destination": S["M2"]}}
        from nrel.hive.model.request import RequestRateStructure

        self.rate_structure = RequestRateStructure(base_price=1.37, price_per_mile=0.73, minimum_price=0.5)
        if prices:
            self.price_rows = {
                "p1": {"station_id": "s0", "charger_id": "DCFC", "price_kwh": "0.291"},
                "p2": {"station_id": "bs", "charger_id": "LEVEL_2", "price_kwh": "0.137"},
                "p3": {"station_id": "s0", "charger_id": "LEVEL_2", "price_kwh": "0.173"},  # same station as p1, other plug
                "p4": {"station_id": "s0", "charger_id": "DCFC", "price_kwh": "0.0"},  # a plug that had a price becomes free of charge
                "p5": {"station_id": "bs", "charger_id": "LEVEL_2", "price_kwh": "-0.041"},  # negative tariff (surplus power)
                "p6": {"station_id": "s0", "charger_id": "LEVEL_2", "price_kwh": "0.0917"},  # re-states the price LEVEL_2 starts with (a flat tariff listed again)
            }
        if prices:
            # the grid side halves a plug's power at run time, at most once each
            self.throttle_rows = {"t1": ("s0", "DCFC", 0.5), "t2": ("bs", "LEVEL_2", 0.5)}
        link_m = rn.position_from_geoid(S["M2"]).link_id
        per_vehicle = [
            ("Idle",),
            ("OutOfService",),
            ("DispatchTrip", "r0"),
            ("DispatchStation", "s0", "DCFC"),
            ("DispatchStation", "s0", "LEVEL_2"),  # the other plug type of the same station (a queued vehicle may be sent to it)
            ("DispatchStation", "s1", "DCFC"),
            ("ChargeStation", "s0", "DCFC"),
            ("ChargeStation", "s0", "LEVEL_2"),
            ("DispatchBase", "b0"),
            ("DispatchBase", "b1"),
            ("ReserveBase", "b0"),
            ("ChargeBase", "b0", "LEVEL_2"),
            ("Reposition", link_m),
        ]
        if gas:
            per_vehicle += [("DispatchStation", "s0", "GAS_PUMP"), ("ChargeStation", "s0", "GAS_PUMP")]
        if split_base:
            per_vehicle += [("ChargeBase", "b1", "DCFC"), ("ReserveBase", "b1")]
        if twin_base:
            per_vehicle += [("ChargeBase", "b2", "LEVEL_2"), ("ReserveBase", "b2"), ("DispatchBase", "b2")]
        if bs_two_plugs:
            per_vehicle += [("ChargeStation", "bs", "DCFC"), ("ChargeStation", "bs", "LEVEL_2"), ("ChargeBase", "b0", "DCFC")]
        if variant == "full":
            per_vehicle += [
                ("DispatchStation", "s0", "LEVEL_1"),  # plug type not installed
                ("ChargeStation", "s0", "LEVEL_1"),  # plugging in, on the spot, on a plug type the scenario knows but s0 does not have
                ("ChargeStation", "s1", "DCFC"),  # far away
                ("ReserveBase", "b1"),  # far away
                ("ChargeBase", "b1", "LEVEL_2"),  # base without station
                ("DispatchStation", "nope", "DCFC"),  # missing target
                ("DispatchBase", "nope"),
            ]
        self.controller_menu = [("I", k[0], vid) + tuple(k[1:]) for vid in ("v0", "v1", "v2") for k in per_vehicle]
        self.per_vehicle = per_vehicle
        # C09 atomicity: the full menu incl. wrong plug / far away / missing target / missing vehicle, on every reached state
        full = per_vehicle + [k for k in [
            ("DispatchStation", "s0", "LEVEL_1"), ("ChargeStation", "s0", "LEVEL_1"), ("ChargeStation", "s1", "DCFC"), ("ReserveBase", "b1"), ("ChargeBase", "b1", "LEVEL_2"),
            ("ChargeBase", "b0", "DCFC"), ("DispatchStation", "nope", "DCFC"), ("DispatchBase", "nope"), ("ChargeStation", "nope", "DCFC"),
            ("ReserveBase", "nope"), ("DispatchTrip", "nope"),
            # a street that does not exist: no such link, a well-formed id of cells that are no cells, a half-valid id
            ("Reposition", "nope"), ("Reposition", "a-b"), ("Reposition", S["A"] + "-zzz")] if k not in per_vehicle]
        self.atomic_menu = [("I", k[0], vid) + tuple(k[1:]) for vid in ("v0", "v1", "v2") for k in full] + [("I", "Idle", "ghost"), ("I", "ChargeStation", "ghost", "s0", "DCFC")]
        self.atomic_pairs = atomic_pairs
        pair_kinds = [("Idle",), ("DispatchTrip", "r0"), ("ChargeStation", "s0", "DCFC"), ("DispatchStation", "s0", "DCFC"),
                      ("ReserveBase", "b0"), ("ChargeBase", "b0", "LEVEL_2"), ("DispatchBase", "b0")]
        self.pair_menu = [("I", k[0], vid) + tuple(k[1:]) for vid in ("v0", "v1", "v2") for k in pair_kinds]
        if queued_start:
            # a second start state, reached by real steps: v0 has driven to s0 and holds its DCFC plug, v2 has followed and waits in
            # the queue -- so that one or two deviations are enough to let something else happen WHILE a vehicle is queueing
            cur, _ = self.step(sim, (("I", "DispatchStation", "v0", "s0", "DCFC"),))
            cur, _ = self.step(cur, (("I", "DispatchStation", "v2", "s0", "DCFC"),))
            for _ in range(6):
                if cur.vehicles["v2"].vehicle_state.__class__.__name__ == "ChargeQueueing":
                    break
                cur, _ = self.step(cur, ())
            names = {vid: v.vehicle_state.__class__.__name__ for vid, v in cur.vehicles.items()}
            assert names["v0"] == "ChargingStation" and names["v2"] == "ChargeQueueing", names
            self.starts["v0-charging,v2-queued"] = cur


def make(**kw) -> ResWorld:
    return ResWorld(**kw)
