"""
C13 (routes are connected paths; snapping lands on the named link) and
C14 (street-network routes are fastest paths): bounded exhaustive enumeration of position / node pairs on
generated street graphs, the straight-line network and the shipped Denver graph, against boring oracles
(structural checks; a heap Dijkstra written here).
"""
from __future__ import annotations

import itertools
import os
from typing import Any, Dict, List, Tuple

import h3

from . import seed, tier
from .enumrun import pmap, rotate
from .nets import build, dijkstra, link_positions, reference_graph
from .nets import stopping_positions
from .report import Check, Finding, log
from nrel.hive.model.entity_position import EntityPosition


# ------------------------------------------------------------------------------------------------ C13


def check_route(rn, o: EntityPosition, d: EntityPosition) -> List[Tuple[str, str]]:
    """returns [(clause, message)]"""
    route = rn.route(o, d)
    bad = []
    if len(route) == 0:
        # positions coincide only when both the link and the cell agree: two entities on the same cell of opposite
        # sides of a street (links u-v and v-u) are different positions and need a way around
        if tuple(o) != tuple(d):
            bad.append(("empty_route", "different_cells" if o.geoid != d.geoid else "same_cell_other_link", f"empty route between different positions {tuple(o)} -> {tuple(d)}"))
        return bad
    if route[0].start != o.geoid:
        bad.append(("start", f"route starts on {route[0].start}, origin {o.geoid}"))
    if route[-1].end != d.geoid:
        bad.append(("end", f"route ends on {route[-1].end}, destination {d.geoid}"))
    for a, b in zip(route, route[1:]):
        if a.end != b.start:
            bad.append(("joined", f"links {a.link_id} (ends {a.end}) and {b.link_id} (starts {b.start}) do not join"))
            break
    for l in route:
        try:
            known = rn.link_from_link_id(l.link_id)
        except Exception as e:  # malformed id
            known = None
        if known is None:
            bad.append(("unknown_link", f"link {l.link_id} does not exist in the network"))
            break
    if rn.__class__.__name__ == "OSMRoadNetwork":
        if route[0].link_id != o.link_id:
            bad.append(("first_link", f"first link {route[0].link_id}, origin link {o.link_id}"))
        if route[-1].link_id != d.link_id:
            bad.append(("last_link", f"last link {route[-1].link_id}, destination link {d.link_id}"))
    return bad


def check_snap(rn, g: str) -> List[Tuple[str, str]]:
    p = rn.position_from_geoid(g)
    if p is None:
        return [("snap_none", f"{g} could not be positioned")]
    try:
        link = rn.link_from_link_id(p.link_id)
    except Exception:
        link = None
    if link is None:
        return [("snap_unknown_link", f"{g} snapped to unknown link {p.link_id}")]
    if p.geoid not in h3.h3_line(link.start, link.end):
        return [("snap_off_link", f"{g} snapped to {p.geoid} which is not on link {p.link_id}")]
    return []


def _c13_shard(shard) -> Dict[str, Any]:
    spec, mode, part, nparts = shard
    rn = build(spec)
    out = {"pairs": 0, "nonempty": 0, "snaps": 0, "findings": [], "samples": []}
    if spec[0] == "haversine":
        from .worlds import sites

        S = sites()
        cells = sorted(set(S.values()))
        poss = [rn.position_from_geoid(c) for c in cells]
        # plus positions as a moved vehicle carries them (link id of the last traversed link)
        poss += [EntityPosition(f"{cells[0]}-{c}", c) for c in cells[1:4]]
        pairs = list(itertools.product(poss, poss))
        snaps = cells
    else:
        link_ids = sorted(rn.link_helper.links.keys())
        if mode == "all_positions":
            poss = [p for lid in link_ids for p in link_positions(rn, lid)]
            pairs = list(itertools.product(poss, poss))
            # positions as a MOVING vehicle carries them: the cells the library itself stops a vehicle on when a step ends inside
            # a link (not always a cell of the link's own cell line), as origins and as destinations
            stops = [p for lid in link_ids for p in stopping_positions(rn, lid)]
            anchors = [p for lid in link_ids for p in link_positions(rn, lid, ("start", "middle", "end"))]
            pairs += list(itertools.product(stops, anchors)) + list(itertools.product(anchors, stops))
        else:  # big graph: all link pairs at (start -> end) plus all position pairs on each link and its reverse
            pairs = []
            ends = {lid: link_positions(rn, lid, ("start", "end")) for lid in link_ids}
            for a in link_ids:
                for b in link_ids:
                    pairs.append((ends[a][0], ends[b][-1]))
            for a in link_ids:
                u, v = a.split("-")
                rev = f"{v}-{u}"
                pa = link_positions(rn, a)
                pb = link_positions(rn, rev) if rev in rn.link_helper.links else []
                pairs += list(itertools.product(pa, pa + pb))
        # snapping: centres of res-12 cells in a 2-ring around every node, and every 7th cell of every link line
        snaps = set()
        for lid in link_ids:
            l = rn.link_helper.links[lid]
            line = h3.h3_line(l.start, l.end)
            snaps.update(line[:: max(1, len(line) // 12)])
            res = h3.h3_get_resolution(l.start)  # the network's own location resolution
            coarse = max(res - 3, 0)
            for c12 in h3.k_ring(h3.h3_to_parent(l.start, coarse), 2):
                snaps.add(h3.h3_to_center_child(c12, res))
        snaps = sorted(snaps)
    for i, (o, d) in enumerate(pairs):
        if i % nparts != part:
            continue
        out["pairs"] += 1
        try:
            bad = check_route(rn, o, d)
        except Exception as e:
            bad = [("exception", f"{type(e).__name__}: {e}")]
        if o.geoid != d.geoid:
            out["nonempty"] += 1
        if len(out["samples"]) < 2 and o != d:
            out["samples"].append({"network": list(spec), "origin": list(o), "destination": list(d)})
        for item in bad:
            clause, msg = ("|".join(item[:-1]), item[-1])
            out["findings"].append((clause, msg, {"network": list(spec), "origin": list(o), "destination": list(d)}))
    for i, g in enumerate(snaps):
        if i % nparts != part:
            continue
        out["snaps"] += 1
        try:
            bad = check_snap(rn, g)
        except Exception as e:
            bad = [("snap_exception", f"{type(e).__name__}: {e}")]
        for clause, msg in bad:
            out["findings"].append((clause, msg, {"network": list(spec), "snap": g}))
    # keep the result small
    seen, keep = set(), []
    for f in out["findings"]:
        if f[0] not in seen:
            seen.add(f[0])
            keep.append(f)
    out["nfindings"] = len(out["findings"])
    out["findings"] = keep
    return out


def c13_networks(quick: bool):
    nets = [
        (("haversine",), "all_positions"),
        (("grid", (40,) * 7, (1,) * 7, ()), "all_positions"),
        (("grid", (10, 100, 40, 10, 100, 40, 10), (1, 1.5, 1, 1, 1.5, 1, 1), (1, 2)), "all_positions"),  # two one-way streets
        (("ring",), "all_positions"),
        (("deadend",), "all_positions"),
        (("parallel",), "all_positions"),
        (("connector", 12), "all_positions"),  # sim_h3_resolution 12: a link whose two junctions share one cell
        (("connector", 15), "all_positions"),
    ]
    nets.append((("denver",), "links"))
    return nets


def c13() -> int:
    c = Check("C13", "bounded exhaustive enumeration of position pairs through the real router, structural oracle")
    quick = tier() == "quick"
    shards = []
    for spec, mode in c13_networks(quick):
        n = 48 if spec[0] == "denver" else 4
        shards += [(spec, mode, p, n) for p in range(n)]
    results = pmap(_c13_shard, rotate(shards, seed()))
    pairs = sum(r["pairs"] for r in results)
    nonempty = sum(r["nonempty"] for r in results)
    snaps = sum(r["snaps"] for r in results)
    samples = [s for r in results for s in r["samples"]][:6]
    for r in results:
        for clause, msg, rp in r["findings"]:
            c.add(Finding("C13", (clause, rp["network"][0]), msg, dict(rp, engine="routes", kind="c13")))
    c.coverage.update(
        {
            "states": pairs + snaps,
            "transitions": pairs + snaps,
            "traces_validated_against_impl": pairs + snaps,
            "evaluations": pairs + snaps,
            "distinct_nontrivial": nonempty,
            "rule": "every ordered pair of positions (start / second / middle / penultimate / end cell of every link) on each generated graph and the straight-line network; on the Denver graph all link pairs (start cell -> end cell) plus all position pairs on each link and its reverse; every snap cell listed; non-trivial = origin and destination on different cells",
            "route_pairs": pairs,
            "snapped_cells": snaps,
            "networks": [list(s) for s, _ in c13_networks(quick)],
            "samples": samples,
        }
    )
    c.exhaustive = True
    c.assumptions += ["graphs built by the harness through OSMRoadNetwork's constructor (from_file is unusable under the installed networkx)",
                      "positions are (link id, cell on that link's h3 line) as the library builds them"]
    log(f"  C13: {pairs} route pairs ({nonempty} between different cells), {snaps} snapped cells, {sum(r['nfindings'] for r in results)} violating cases")
    return c.finish()


# ------------------------------------------------------------------------------------------------ C14


_C14_PROCESS_LOG: list = []  # graphs this worker process has already routed on (state may survive in the library between them)


def _c14_shard(shard) -> Dict[str, Any]:
    spec, part, nparts = shard
    earlier = list(_C14_PROCESS_LOG[-6:])
    _C14_PROCESS_LOG.append(spec)
    rn = build(spec)
    g = reference_graph(spec)  # the oracle's own copy: never handed to (or read from) the library
    nodes = sorted(g.nodes)
    out = {"pairs": 0, "nontrivial": 0, "findings": [], "nfindings": 0, "worst": 0.0, "samples": []}
    in_link = {}
    out_link = {}
    for u, v in sorted(set((u, v) for u, v, _ in g.edges)):
        in_link.setdefault(v, f"{u}-{v}")
        out_link.setdefault(u, f"{u}-{v}")
    for i, u in enumerate(nodes):
        if i % nparts != part:
            continue
        dist = dijkstra(g, u)
        lo = rn.link_from_link_id(in_link[u])
        if lo is not None:
            # ordinary use of the long-lived network object between route queries: distance queries, also between a place and itself
            rn.distance_by_geoid_km(lo.start, lo.start)
            rn.distance_by_geoid_km(lo.start, lo.end)
            rn.distance_by_geoid_km(lo.end, lo.end)
            # ... and the object's other public services: snapping, the geofence test, and saving the
            # network to a file (every other origin), all of which must leave the routing untouched
            rn.position_from_geoid(lo.end)
            rn.link_from_geoid(lo.start)
            rn.geoid_within_geofence(lo.start)
            if i % 2 == 0:
                import tempfile as _tf

                with _tf.TemporaryDirectory(dir="/dev/shm") as _d:
                    rn.to_file(os.path.join(_d, "net.json"))
        if lo is None:
            # a street of the input graph is unknown to the network built from it: no route can start there
            out["nfindings"] += 1
            if len(out["findings"]) < 1:
                out["findings"].append(("street_unknown_to_network", f"link {in_link[u]} of the input graph is not in the network's link table",
                                        {"network": list(spec), "from_node": u, "to_node": u, "graphs_routed_earlier_in_this_process": [list(e) for e in earlier]}))
            continue
        o = EntityPosition(lo.link_id, lo.start)
        for v in nodes:
            ld = rn.link_from_link_id(out_link[v])
            if ld is None:
                continue  # reported when v is the origin
            d = EntityPosition(ld.link_id, ld.end)
            route = rn.route(o, d)
            out["pairs"] += 1
            inner = route[1:-1]
            t = 0.0
            ok = True
            for l in inner:
                a, b = l.link_id.split("-")
                try:
                    t += min(data["travel_time"] for data in g[int(a)][int(b)].values())
                except Exception:
                    ok = False
            best = dist.get(v, float("inf"))
            if ok and spec[0] != "denver":
                # the same, by what the vehicle will actually drive: the lengths and speeds the route's own links carry (on the
                # generated graphs the search weight IS length / speed, so the two measures must agree -- they differ when a
                # link id stands for another parallel street than the one the search priced)
                t_links = sum(l.distance_km / l.speed_kmph * 3600.0 for l in inner)
                if t_links > best * (1 + 1e-9) + 1e-6:
                    out["nfindings"] += 1
                    out["worst"] = max(out["worst"], t_links - best)
                    if not any(f[0] == "links_of_the_route_slower_than_optimum" for f in out["findings"]):
                        out["findings"].append(
                            ("links_of_the_route_slower_than_optimum", f"route from node {u} to node {v}: the links it consists of take {t_links:.3f} s at their own lengths and speeds ({[l.link_id for l in inner]}), the fastest path {best:.3f} s",
                             {"network": list(spec), "from_node": u, "to_node": v, "graphs_routed_earlier_in_this_process": [list(e) for e in earlier]})
                        )
            if u != v:
                out["nontrivial"] += 1
            if len(out["samples"]) < 1 and len(inner) > 1:
                out["samples"].append({"network": list(spec), "from_node": u, "to_node": v, "route_time_s": t, "optimum_s": best})
            if not ok or t > best * (1 + 1e-9) + 1e-9 or (len(route) == 0 and o != d):
                out["nfindings"] += 1
                out["worst"] = max(out["worst"], t - best)
                if len(out["findings"]) < 1:
                    out["findings"].append(
                        ("slower_than_optimum", f"route from node {u} to node {v} takes {t:.3f} s, the fastest path {best:.3f} s",
                         {"network": list(spec), "from_node": u, "to_node": v, "graphs_routed_earlier_in_this_process": [list(e) for e in earlier]})
                    )
    return out


def c14_networks(quick: bool):
    nets = []
    # every assignment of {10, 100} km/h to the 7 streets of the 2x3 grid; a fixed half of the streets 3x longer
    for bits in itertools.product((10, 100), repeat=7):
        nets.append(("grid", tuple(bits), (3, 1, 1, 3, 1, 3, 1), ()))
    for bits in itertools.product((10, 100), repeat=7):
        nets.append(("grid", tuple(bits), (1,) * 7, ()))
    nets += [("ring",), ("deadend",), ("parallel",), ("connector", 12), ("connector", 15), ("grid", (10, 100, 40, 10, 100, 40, 10), (1, 1.5, 1, 1, 1.5, 1, 1), (1, 2))]
    nets += [("unlabelled", 15.0), ("unlabelled", 40.0), ("unlabelled", 90.0)]  # streets without a speed label under three default speeds
    if not quick:
        # three speed classes on every street (3^7 assignments) for both length patterns, and the two-speed assignments again
        # with two one-way streets (the graph stays strongly connected)
        for bits in itertools.product((10, 40, 100), repeat=7):
            if 40 in bits:
                nets.append(("grid", tuple(bits), (3, 1, 1, 3, 1, 3, 1), ()))
                nets.append(("grid", tuple(bits), (1, 2, 1, 1, 1.5, 1, 2), ()))
        for bits in itertools.product((10, 100), repeat=7):
            nets.append(("grid", tuple(bits), (3, 1, 1, 3, 1, 3, 1), (1, 2)))
    return nets


def c14() -> int:
    c = Check("C14", "bounded exhaustive enumeration of node pairs through the real router vs an independent Dijkstra")
    quick = tier() == "quick"
    shards = [(spec, 0, 1) for spec in c14_networks(quick)]
    n = 64
    shards += [(("denver",), p, n) for p in range(n)]
    results = pmap(_c14_shard, rotate(shards, seed()))
    pairs = sum(r["pairs"] for r in results)
    nontrivial = sum(r["nontrivial"] for r in results)
    bad = sum(r["nfindings"] for r in results)
    worst = max(r["worst"] for r in results)
    for r in results:
        for clause, msg, rp in r["findings"]:
            c.add(Finding("C14", (clause, rp["network"][0]), msg + f" ({bad} of {pairs} pairs sub-optimal in this run, worst +{worst:.1f} s)", dict(rp, engine="routes", kind="c14")))
    c.coverage.update(
        {
            "states": pairs,
            "transitions": pairs,
            "traces_validated_against_impl": pairs,
            "evaluations": pairs,
            "distinct_nontrivial": nontrivial,
            "rule": "all ordered node pairs (u = end of origin link, v = start of destination link) on: the 2x3 grid under every assignment of {10,100} km/h to its 7 streets (x2 length patterns), ring+chord, dead-end loop, one-way grid, and all 308^2 node pairs of the shipped Denver graph; non-trivial = u != v",
            "graphs": len(c14_networks(quick)) + 1,
            "suboptimal_pairs": bad,
            "samples": [s for r in results for s in r["samples"]][:5],
        }
    )
    c.exhaustive = True
    c.assumptions += ["oracle: heap Dijkstra over the same 'travel_time' edge attribute (min over parallel edges), tolerance 1e-9 relative"]
    log(f"  C14: {pairs} node pairs on {len(c14_networks(quick)) + 1} graphs, {bad} sub-optimal (worst +{worst:.2f} s)")
    return c.finish()


# ------------------------------------------------------------------------------------------------ replay


def replay(body) -> int:
    rp = body["replay"]
    spec = tuple(tuple(x) if isinstance(x, list) else x for x in rp["network"])
    rn = build(spec)
    if rp["kind"] == "c13":
        if "snap" in rp:
            bad = check_snap(rn, rp["snap"])
        else:
            bad = check_route(rn, EntityPosition(*rp["origin"]), EntityPosition(*rp["destination"]))
        for item in bad:
            print(f"{item[:-1]}: {item[-1]}")
        hit = bool(bad)
    else:
        # same process history first (earlier graphs of that worker, whole sweeps), then the whole sweep on this graph: a defect
        # that lives in state surviving between calls or networks replays as found
        tup = lambda e: tuple(tuple(x) if isinstance(x, list) else x for x in e)
        for e in rp.get("graphs_routed_earlier_in_this_process", []):
            _c14_shard((tup(e), 0, 1))
        sweep = _c14_shard((spec, 0, 1))
        for f in sweep["findings"]:
            print("in the sweep of this graph:", f[1])
        if sweep["findings"]:
            print(f"VIOLATION property={body['property']} replay={body.get('_path')}")
            return 1
        rn = build(spec)
        g = reference_graph(spec)
        u, v = rp["from_node"], rp["to_node"]
        dist = dijkstra(g, u)
        in_link = sorted(f"{a}-{b}" for a, b, _ in g.edges if b == u)[0]
        out_link = sorted(f"{a}-{b}" for a, b, _ in g.edges if a == v)[0]
        lo, ld = rn.link_from_link_id(in_link), rn.link_from_link_id(out_link)
        route = rn.route(EntityPosition(lo.link_id, lo.start), EntityPosition(ld.link_id, ld.end))
        t = sum(min(d["travel_time"] for d in g[int(l.link_id.split("-")[0])][int(l.link_id.split("-")[1])].values()) for l in route[1:-1])
        print(f"route {u}->{v}: {t:.3f} s via {[l.link_id for l in route[1:-1]]}; optimum {dist[v]:.3f} s")
        hit = t > dist[v] * (1 + 1e-9) + 1e-9
    if hit:
        print(f"VIOLATION property={body['property']} replay={body.get('_path')}")
        return 1
    print("not reproduced on this tree")
    return 0
