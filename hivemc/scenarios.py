"""
The small, sharp scenarios of C01 / C15 / C19 (DESIGN.md 4/C01), written as real input files.

S1  three fleets, vehicles in two fleets each, requests of each fleet arriving in the same step at equal grid
    distance from two candidate vehicles (ties in the assignment and in the instruction stack)
S2  low-charge vehicles; stations with two usable plug types and equal queues; two stations at equal grid distance
    in different search cells; single-plug stations reached by two vehicles in the same step; two low vehicles
    standing on a station cell
S3  human drivers with home bases and shifts; autonomous vehicles timing out to bases with one stall; price table
    with overlapping regions; fares
S5/S6 the shipped denver_demo / denver_demo_fleets inputs on the straight-line network
"""
from __future__ import annotations

import os
from typing import Dict, List, Tuple

import h3
import yaml
from pkg_resources import resource_filename

from .scen import write_global_config, write_scenario
from .worlds import sites, travel_s

LOW_DISPATCH = {
    "matching_range_km_threshold": 3,
    "charging_range_km_threshold": 6,
    "charging_range_km_soft_threshold": 12,
    "base_charging_range_km_threshold": 3,
    "idle_time_out_seconds": 180,
    "max_search_radius_km": 30.0,
}


def tie_across_search_cells(res: int = 7) -> Tuple[str, str, str]:
    """(vehicle cell, station cell a, station cell b): the vehicle's own search cell holds neither station, the two
    stations lie in two different search cells at the same grid distance from the vehicle"""
    S = sites()
    a9 = h3.h3_to_parent(S["F1"], 9)
    c0 = S["F1"]
    p0 = h3.h3_to_parent(c0, res)
    cands = []
    for k in range(1, 9):
        for c9 in sorted(h3.hex_ring(a9, k)):
            c = h3.h3_to_center_child(c9, 15)
            p = h3.h3_to_parent(c, res)
            if p != p0:
                cands.append((h3.h3_distance(c0, c), c, p))
    cands.sort()
    for i, (d1, c1, p1) in enumerate(cands):
        for d2, c2, p2 in cands[i + 1 :]:
            if d2 != d1:
                break
            if p2 != p1:
                return c0, c1, c2
    raise RuntimeError("no tie geometry found")


def s1(d: str, lazy: bool = False) -> str:
    S = sites()
    write_global_config(d, log_stats=True, lazy=lazy)
    vehicles = [
        {"id": "v1", "cell": S["N1"], "soc": 0.8},
        {"id": "v2", "cell": S["N2"], "soc": 0.8},
        {"id": "v3", "cell": S["N3"], "soc": 0.8},
        {"id": "v4", "cell": S["X1"], "soc": 0.8},
        {"id": "v5", "cell": S["X2"], "soc": 0.8},
        {"id": "v6", "cell": S["X3"], "soc": 0.8},
    ]
    fleets = {
        "fa": {"vehicles": ["v1", "v3", "v4"], "stations": ["s0"], "bases": ["b0"]},
        "fb": {"vehicles": ["v1", "v2", "v5"], "stations": ["s0", "s1"], "bases": ["b0"]},
        "fc": {"vehicles": ["v2", "v3", "v6"], "stations": ["s1"], "bases": ["b0"]},
    }
    reqs = []
    k = 0
    for t in (30, 90, 150, 330, 390):
        for f in ("fa", "fb", "fc"):
            # origin A: every vehicle is at grid distance 343 from it
            reqs.append((f"r{k:02d}", S["A"], S["M1"] if k % 2 else S["M2"], t, 1, f))
            k += 1
    return write_scenario(
        d, "s1", start=0, end=1500, step=60, cancel=300, vehicles=vehicles, requests=reqs,
        bases=[("b0", S["A"], None, 2)],
        stations=[("s0", S["N1"], "DCFC", 1, True), ("s0", S["N1"], "LEVEL_2", 1, True), ("s1", S["X1"], "DCFC", 1, True)],
        fleets=fleets, rate=(1.37, 0.73, 0.5),
        dispatcher=dict(LOW_DISPATCH, idle_time_out_seconds=240),
    )


def s2(d: str, lazy: bool = False, search: str = "nearest_shortest_queue", name: str = "s2") -> str:
    S = sites()
    c0, ca, cb = tie_across_search_cells()
    write_global_config(d, log_stats=True, lazy=lazy)
    vehicles = [
        # two low small-battery vehicles on a station cell (both told to plug in in the same step); the one that gets the
        # plug is full enough to leave after a few steps, i.e. it RELEASES the plug while others wait
        {"id": "v1", "cell": S["N1"], "soc": 0.2, "mech": "small"},
        {"id": "v2", "cell": S["N1"], "soc": 0.2, "mech": "small"},
        # low vehicles at equal distance from s0: they arrive in the same step and join the queue with the SAME enqueue time
        {"id": "v9", "cell": S["N2"], "soc": 0.015, "mech": "thirsty"},
        {"id": "v3", "cell": S["N3"], "soc": 0.015, "mech": "thirsty"},
        # a low vehicle whose nearest stations tie across search cells
        {"id": "v5", "cell": c0, "soc": 0.015, "mech": "thirsty"},
        {"id": "v7", "cell": S["A"], "soc": 0.6, "mech": "thirsty"},
    ]
    stations = [
        ("s0", S["N1"], "DCFC", 1, True), ("s0", S["N1"], "LEVEL_2", 1, True),  # two usable plug types, equal queues
        ("sq", S["A"], "LEVEL_2", 1, True), ("sq", S["A"], "DCFC", 1, True),
        ("sa", ca, "DCFC", 1, True), ("sa", ca, "LEVEL_2", 1, True),
        ("sb", cb, "DCFC", 1, True), ("sb", cb, "LEVEL_2", 1, True),
    ]
    reqs = [("r0", S["A"], S["M1"], 400, 1), ("r1", S["N2"], S["M2"], 700, 1)]
    prices = [(0, h3.h3_to_parent(S["A"], 5), "DCFC", 0.291), (0, h3.h3_to_parent(S["A"], 7), "DCFC", 0.137), (0, h3.h3_to_parent(S["A"], 7), "LEVEL_2", 0.077)]
    return write_scenario(
        d, name, start=0, end=1800, step=60, cancel=300, vehicles=vehicles, requests=reqs,
        bases=[("b0", S["M1"], None, 1)], stations=stations, prices=prices, price_key="geoid",
        dispatcher=dict(LOW_DISPATCH, charging_search_type=search),
        mechatronics_file=os.path.join(os.path.dirname(os.path.dirname(os.path.abspath(__file__))), "worlds", "mechatronics.yaml"),
    )


def s3(d: str, lazy: bool = False) -> str:
    S = sites()
    write_global_config(d, log_stats=True, lazy=lazy)
    vehicles = [
        {"id": "h1", "cell": S["N1"], "soc": 0.5, "schedule_id": "early", "home_base_id": "hb1"},
        {"id": "h2", "cell": S["N2"], "soc": 0.5, "schedule_id": "late", "home_base_id": "hb3"},  # (a home base is private to ONE driver)
        {"id": "h3", "cell": S["N3"], "soc": 0.5, "schedule_id": "early", "home_base_id": "hb2"},
        # a fourth driver who names the same home base as h1 (the private memberships of a shared base are written one over the other)
        {"id": "h4", "cell": S["N2"], "soc": 0.5, "schedule_id": "late", "home_base_id": "hb1"},
        # autonomous vehicles at equal distance from the one-stall base b1: time out in the same step
        {"id": "a1", "cell": S["X1"], "soc": 0.5},
        {"id": "a2", "cell": S["X2"], "soc": 0.5},
        {"id": "a3", "cell": S["X3"], "soc": 0.5},
    ]
    bases = [("hb1", S["M1"], "hbs1", 1), ("hb2", S["M2"], None, 2), ("hb3", S["X2"], None, 1), ("b1", S["A"], "bs1", 2)]
    stations = [("hbs1", S["M1"], "LEVEL_2", 1, False), ("bs1", S["A"], "LEVEL_2", 1, False), ("s0", S["N1"], "DCFC", 1, True)]
    schedules = [("early", "00:02:00", "00:12:00"), ("late", "00:06:00", "00:20:00")]
    reqs = [(f"r{k}", S["A"] if k % 2 else S["N1"], S["M2"] if k % 3 else S["X1"], 60 * k + 20, 1) for k in range(2, 20, 2)]
    # single customers waiting at the same time in different search cells (sites F*, X* and the centre lie in three cells): the
    # human drivers' "go where the demand is" choice meets a tie between cells
    # (they enter in the very steps in which the early / late shifts begin, when the drivers sit at home and look for work)
    reqs += [("q1", S["F1"], S["M1"], 100, 1), ("q3", S["X3"], S["M1"], 100, 1), ("q4", S["F2"], S["M1"], 340, 1), ("q5", S["X2"], S["M2"], 340, 1)]
    reqs.sort(key=lambda r: r[3])
    prices = [(0, "s0", "DCFC", 0.291), (0, "bs1", "LEVEL_2", 0.137), (0, "hbs1", "LEVEL_2", 0.05), (600, "s0", "DCFC", 0.402)]
    return write_scenario(
        d, "s3", start=0, end=2100, step=60, cancel=240, vehicles=vehicles, requests=reqs,
        bases=bases, stations=stations, schedules=schedules, prices=prices, rate=(1.37, 0.73, 0.5),
        dispatcher=dict(LOW_DISPATCH, idle_time_out_seconds=120),
    )


def shipped(d: str, which: str, steps: int, lazy: bool = False) -> str:
    """the shipped Denver inputs, on the straight-line network (OSMRoadNetwork.from_file cannot load under this networkx)"""
    src = resource_filename("nrel.hive.resources.scenarios.denver_downtown", which)
    with open(src) as f:
        conf = yaml.safe_load(f)
    base = os.path.dirname(src)
    write_global_config(d, log_stats=True, lazy=lazy)
    sub = {"vehicles_file": "vehicles", "requests_file": "requests", "bases_file": "bases", "stations_file": "stations",
           "rate_structure_file": "service_prices", "charging_price_file": "charging_prices", "fleets_file": "fleets",
           "chargers_file": "chargers", "mechatronics_file": "mechatronics"}
    inp = {}
    for k, v in conf["input"].items():
        if k in ("road_network_file", "geofence_file") or v is None:
            continue
        p = os.path.join(base, sub.get(k, ""), v)
        inp[k] = p if os.path.isfile(p) else v
    conf["input"] = inp
    conf["network"] = {"network_type": "euclidean"}
    conf["sim"]["end_time"] = "1970-01-01T%02d:%02d:00" % divmod(steps * int(conf["sim"].get("timestep_duration_seconds", 60)) // 60, 60)
    path = os.path.join(d, which)
    with open(path, "w") as f:
        yaml.safe_dump(conf, f)
    return path


def grid_init_functions():
    """initialisation functions for a scenario on the generated 2x3 street grid: OSMRoadNetwork.from_file cannot load under
    the installed networkx, so the network is built through the constructor by a custom init function placed before the
    library's default ones (the documented extension point of load_scenario)"""
    from nrel.hive.initialization.initialize_simulation import default_init_functions

    from .nets import build

    def osm_grid(config, simulation_state, environment):
        rn = build(("grid", (100, 10, 100, 10, 40, 40, 40), (1, 1, 1, 1, 1, 1.5, 1), ()))
        return simulation_state._replace(road_network=rn), environment

    return [osm_grid] + list(default_init_functions())


def s4(d: str, lazy: bool = False) -> str:
    """street-grid scenario: vehicles, requests, stations and a base on junctions and mid-street cells of the 2x3 grid"""
    from .nets import build, link_positions

    rn = build(("grid", (100, 10, 100, 10, 40, 40, 40), (1, 1, 1, 1, 1, 1.5, 1), ()))
    node = {}
    for lid, l in rn.link_helper.links.items():
        node[int(lid.split("-")[0])] = l.start
    mid01 = link_positions(rn, "0-1", ("middle",))[0].geoid
    mid34 = link_positions(rn, "3-4", ("middle",))[0].geoid
    write_global_config(d, log_stats=True, lazy=lazy)
    vehicles = [
        {"id": "v1", "cell": node[0], "soc": 0.6}, {"id": "v2", "cell": node[2], "soc": 0.6}, {"id": "v3", "cell": mid01, "soc": 0.012},
        {"id": "v4", "cell": mid34, "soc": 0.012}, {"id": "v5", "cell": node[5], "soc": 0.6}, {"id": "v6", "cell": node[3], "soc": 0.012},
    ]
    stations = [("s0", node[1], "DCFC", 1, True), ("s0", node[1], "LEVEL_2", 1, True), ("s1", node[4], "DCFC", 1, True), ("s1", node[4], "LEVEL_2", 1, True)]
    reqs = [(f"r{k}", node[k % 6], node[(k * 2 + 3) % 6], 40 + 50 * k, 1) for k in range(10) if node[k % 6] != node[(k * 2 + 3) % 6]]
    return write_scenario(
        d, "s4", start=0, end=1800, step=60, cancel=300, vehicles=vehicles, requests=reqs,
        bases=[("b0", node[3], None, 1)], stations=stations, rate=(1.37, 0.73, 0.5),
        dispatcher=dict(LOW_DISPATCH, idle_time_out_seconds=180),
    )


INIT_FUNCTIONS = {"S4": grid_init_functions}


def s0g(d: str, lazy: bool = False) -> str:
    """a PRIMER scenario for the in-process repetition pass: the station ids of the other scenarios, but every one of them a gas
    pump only, and low battery vehicles of the same powertrain types that search for a plug (and find none): whatever the library
    remembers per (powertrain, station id) in this run must not reach the runs that follow in the same interpreter"""
    S = sites()
    write_global_config(d, log_stats=True, lazy=lazy)
    vehicles = [{"id": "v1", "cell": S["N1"], "soc": 0.02, "mech": "quiet"}, {"id": "v9", "cell": S["N2"], "soc": 0.02, "mech": "thirsty"},
                {"id": "h1", "cell": S["N3"], "soc": 0.02, "mech": "thirsty"}]
    stations = [(sid, S[c], "GAS_PUMP", 1, True) for sid, c in (("s0", "N1"), ("s1", "X1"), ("sq", "A"), ("sa", "M1"), ("sb", "M2"), ("bs1", "X2"), ("hbs1", "X3"))]
    return write_scenario(
        d, "s0g", start=0, end=600, step=60, cancel=300, vehicles=vehicles, requests=[("r0", S["A"], S["M1"], 100, 1)],
        bases=[("b0", S["M1"], None, 1)], stations=stations, dispatcher=dict(LOW_DISPATCH),
        mechatronics_file=os.path.join(os.path.dirname(os.path.dirname(os.path.abspath(__file__))), "worlds", "mechatronics.yaml"),
    )


BUILDERS = {
    "S0g": (s0g, 8),
    "S1": (s1, 25),
    "S2": (s2, 30),
    "S3": (s3, 35),
    # S2 under the other station-search strategy (estimated time to finish charging instead of distance x queue)
    "S2t": (lambda d, lazy=False: s2(d, lazy, search="shortest_time_to_charge", name="s2t"), 30),
    "S4": (s4, 30),
    "S5": (lambda d, lazy=False: shipped(d, "denver_demo.yaml", 240, lazy), 240),
    "S6": (lambda d, lazy=False: shipped(d, "denver_demo_fleets.yaml", 240, lazy), 240),
}
