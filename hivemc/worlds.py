"""
Closed worlds for the fleet state-space explorer (FSX), built only with the library's public constructors.

A world fixes: the Environment (config, mechatronics, chargers, schedules, fleets, capturing reporter),
one or more initial SimulationStates, the menu of controller / environment deviations and the real
transition (`step`): request admission, cancellation, StepSimulation.update with a scripted controller.
"""
from __future__ import annotations

import functools
import math
import os
from pathlib import Path
from typing import Any, Callable, Dict, Iterable, List, Optional, Sequence, Tuple

import h3
import immutables
from pkg_resources import resource_filename

from . import VERIF  # noqa: F401  (also sets up sys.path / logging)

from nrel.hive.config import HiveConfig
from nrel.hive.dispatcher.instruction.instructions import (
    ChargeBaseInstruction,
    ChargeStationInstruction,
    DispatchBaseInstruction,
    DispatchStationInstruction,
    DispatchTripInstruction,
    IdleInstruction,
    OutOfServiceInstruction,
    RepositionInstruction,
    ReserveBaseInstruction,
)
from nrel.hive.dispatcher.instruction_generator.instruction_generator import InstructionGenerator
from nrel.hive.model.base import Base
from nrel.hive.model.energy.charger import build_chargers_table
from nrel.hive.model.membership import Membership
from nrel.hive.model.request import Request, RequestRateStructure
from nrel.hive.model.roadnetwork.haversine_roadnetwork import HaversineRoadNetwork
from nrel.hive.model.sim_time import SimTime
from nrel.hive.model.station.station import Station
from nrel.hive.model.vehicle.mechatronics import build_mechatronics_table
from nrel.hive.model.vehicle.vehicle import Vehicle
from nrel.hive.reporting.reporter import Reporter
from nrel.hive.runner.environment import Environment
from nrel.hive.state.driver_state.driver_state import DriverState
from nrel.hive.state.simulation_state import simulation_state_ops
from nrel.hive.state.simulation_state.simulation_state import SimulationState
from nrel.hive.state.simulation_state.update.cancel_requests import CancelRequests
from nrel.hive.state.simulation_state.update.charging_price_update import ChargingPriceUpdate
from nrel.hive.state.simulation_state.update.step_simulation import StepSimulation
from nrel.hive.state.simulation_state.update.update_requests_from_file import (
    update_requests_from_iterator,
)
from nrel.hive.state.vehicle_state.idle import Idle
from nrel.hive.util.iterators import DictReaderStepper

from .canon import key_hash, state_key

SPEED_KMPH = 40.0
T0 = 3600 * 8  # worlds start at 08:00:00 of day 0 (well away from midnight)


# ---------------------------------------------------------------------------------------------------
# geometry


def gc_km(a: str, b: str) -> float:
    lat1, lon1 = h3.h3_to_geo(a)
    lat2, lon2 = h3.h3_to_geo(b)
    lat1, lon1, lat2, lon2 = map(math.radians, (lat1, lon1, lat2, lon2))
    d = math.sin((lat2 - lat1) / 2) ** 2 + math.cos(lat1) * math.cos(lat2) * math.sin((lon2 - lon1) / 2) ** 2
    return 2 * 6371 * math.asin(math.sqrt(d))


def travel_s(a: str, b: str) -> float:
    return gc_km(a, b) / SPEED_KMPH * 3600.0


@functools.lru_cache(maxsize=None)
def sites(step: int = 60, search_res: int = 7) -> Dict[str, str]:
    """
    A   : origin
    N1-3: < 1 step from A, same search cell           X1-3: < 1 step from A, other search cell
    M1-2: 2 steps from A (one mid-link split), same search cell
    F1-2: 3-6 steps from A, other search cell
    """
    a9 = h3.geo_to_h3(39.7539, -104.974, 9)
    a = h3.h3_to_center_child(a9, 15)
    sa = h3.h3_to_parent(a, search_res)
    out = {"A": a}
    near = sorted(h3.k_ring(a9, 1) - {a9})
    n = [h3.h3_to_center_child(c, 15) for c in near]
    same = [c for c in n if h3.h3_to_parent(c, search_res) == sa and travel_s(a, c) < step]
    other = [c for c in n if h3.h3_to_parent(c, search_res) != sa and travel_s(a, c) < step]
    for i, c in enumerate(same[:3]):
        out[f"N{i+1}"] = c
    for i, c in enumerate(other[:3]):
        out[f"X{i+1}"] = c
    mids, fars = [], []
    for k in range(2, 12):
        for c9 in sorted(h3.hex_ring(a9, k)):
            c = h3.h3_to_center_child(c9, 15)
            t = travel_s(a, c)
            if h3.h3_to_parent(c, search_res) == sa and step * 1.25 < t <= step * 1.9:
                mids.append(c)
            if h3.h3_to_parent(c, search_res) != sa and step * 3.2 < t <= step * 5.5:
                fars.append(c)
    for i, c in enumerate(mids[:2]):
        out[f"M{i+1}"] = c
    for i, c in enumerate(fars[:2]):
        out[f"F{i+1}"] = c
    need = {"A", "N1", "N2", "X1", "X2", "M1", "M2", "F1"}
    if not need <= set(out):
        raise RuntimeError(f"site construction failed: {sorted(out)}")
    return out


# ---------------------------------------------------------------------------------------------------
# environment


class CapturingReporter(Reporter):
    """keeps every filed report until the harness takes them; never writes anything"""

    def __init__(self):
        super().__init__()

    def take(self):
        r = self.reports
        self.reports = []
        return r

    def flush(self, runner_payload):  # pragma: no cover - not used by worlds
        self.reports = []

    def close(self, runner_payload):  # pragma: no cover
        pass


_DEMO = Path(resource_filename("nrel.hive.resources.scenarios.denver_downtown", "denver_demo.yaml"))


def make_config(
    step: int = 60,
    cancel: int = 240,
    idle_timeout: int = 120,
    start: int = T0,
    end: int = T0 + 86400,
    search_res: int = 7,
    dispatcher: Optional[dict] = None,
) -> HiveConfig:
    d = {
        "matching_range_km_threshold": 0.0,
        "charging_range_km_threshold": 0.2,
        "charging_range_km_soft_threshold": 0.5,
        "base_charging_range_km_threshold": 0.0,
        "idle_time_out_seconds": idle_timeout,
        "max_search_radius_km": 100.0,
    }
    d.update(dispatcher or {})
    cwd = os.getcwd()
    try:
        # HiveConfig.build looks for a .hive.yaml upwards from the cwd; make that deterministic
        os.chdir(VERIF)
        conf = HiveConfig.build(
            _DEMO,
            {
                "sim": {
                    "sim_name": "hivemc",
                    "start_time": start,
                    "end_time": end,
                    "timestep_duration_seconds": step,
                    "request_cancel_time_seconds": cancel,
                    "sim_h3_resolution": 15,
                    "sim_h3_search_resolution": search_res,
                },
                "input": {
                    "vehicles_file": "denver_demo_vehicles.csv",
                    "requests_file": "denver_demo_requests.csv",
                    "bases_file": "denver_demo_bases.csv",
                    "stations_file": "denver_demo_stations.csv",
                },
                "network": {"network_type": "euclidean"},
                "dispatcher": d,
            },
            output_suffix="x",
        )
    finally:
        os.chdir(cwd)
    if isinstance(conf, Exception):
        raise conf
    return conf.suppress_logging()


@functools.lru_cache(maxsize=None)
def _mechatronics():
    return build_mechatronics_table(
        os.path.join(VERIF, "worlds", "mechatronics.yaml"),
        str(_DEMO.parent),
    )


@functools.lru_cache(maxsize=None)
def _chargers():
    return build_chargers_table(resource_filename("nrel.hive.resources.chargers", "default_chargers.csv"))


def make_env(config: HiveConfig, fleets: Iterable[str] = (), schedules=None) -> Environment:
    return Environment(
        config=config,
        mechatronics=_mechatronics(),
        chargers=_chargers(),
        schedules=immutables.Map(schedules or {}),
        fleet_ids=frozenset(fleets),
        reporter=CapturingReporter(),
    )


def membership(ids: Iterable[str]) -> Membership:
    ids = tuple(ids)
    return Membership.from_tuple(ids) if ids else Membership()


def mk_vehicle(
    env: Environment,
    rn,
    vid: str,
    geoid: str,
    mech: str = "quiet",
    soc: float = 0.5,
    energy: Optional[float] = None,
    fleets: Iterable[str] = (),
    schedule_id: Optional[str] = None,
    home_base_id: Optional[str] = None,
) -> Vehicle:
    m = env.mechatronics[mech]
    e = m.initial_energy(soc)
    if energy is not None:
        (k,) = tuple(e.keys())
        e = immutables.Map({k: float(energy)})
    return Vehicle(
        id=vid,
        position=rn.position_from_geoid(geoid),
        membership=membership(fleets),
        mechatronics_id=mech,
        energy=e,
        energy_gained=m.initial_energy(0.0),
        energy_expended=m.initial_energy(0.0),
        vehicle_state=Idle.build(vid),
        driver_state=DriverState.build(vid, schedule_id, home_base_id, False),
        total_seats=4,
    )


def mk_station(env, rn, sid, geoid, chargers: Dict[str, int], fleets=(), on_shift=None, one_row_per_plug: bool = False) -> Station:
    """a station assembled the way the stations file is read: one row per plug type through Station.from_row (the first row
    builds the station, later rows append plug types), memberships set afterwards as the fleets file does"""
    import h3

    lat, lon = h3.h3_to_geo(geoid)
    if h3.geo_to_h3(lat, lon, rn.sim_h3_resolution) != geoid or on_shift is not None:
        # (rows after a station's first one do not carry their on_shift_access flag into the station: explicit on-shift sets
        # are built directly)
        return _mk_station_direct(env, rn, sid, geoid, chargers, fleets, on_shift)
    builder: Dict[str, Station] = {}
    # one_row_per_plug: a plug type with n plugs is listed on n rows of one plug each (the stations file may repeat a
    # (station, plug type) pair; the counts add up)
    rows = [(cid, 1) for cid, n in chargers.items() for _ in range(n)] if one_row_per_plug else list(chargers.items())
    for cid, n in rows:
        row = {"station_id": sid, "lat": repr(lat), "lon": repr(lon), "charger_id": cid, "charger_count": str(n),
               "on_shift_access": "true" if (on_shift is None or cid in on_shift) else "false"}
        builder[sid] = Station.from_row(row, builder, rn, env)
    st = builder[sid]
    if tuple(fleets):
        st = st.set_membership(tuple(fleets))
    return st


def _mk_station_direct(env, rn, sid, geoid, chargers: Dict[str, int], fleets=(), on_shift=None) -> Station:
    return Station.build(
        station_id=sid,
        geoid=geoid,
        road_network=rn,
        chargers=immutables.Map(chargers),
        on_shift_access=frozenset(chargers.keys() if on_shift is None else on_shift),
        membership=membership(fleets),
        env=env,
    )


def mk_base(rn, bid, geoid, stalls=1, station_id=None, fleets=()) -> Base:
    return Base.build(bid, geoid, rn, station_id, stalls, membership(fleets))


def build_sim(env: Environment, rn, vehicles=(), stations=(), bases=(), start: int = T0) -> SimulationState:
    sim = SimulationState(
        road_network=rn,
        sim_time=SimTime.build(int(start)),
        sim_timestep_duration_seconds=env.config.sim.timestep_duration_seconds,
        sim_h3_location_resolution=env.config.sim.sim_h3_resolution,
        sim_h3_search_resolution=env.config.sim.sim_h3_search_resolution,
    )
    for e in list(stations) + list(bases) + list(vehicles):
        sim = simulation_state_ops.add_entity(sim, e)
    return sim


# ---------------------------------------------------------------------------------------------------
# scripted controller


class Scripted(InstructionGenerator):
    """'any controller': returns exactly the instructions the explorer chose for this step"""

    def __init__(self, instructions=()):
        self.instructions = tuple(instructions)

    def generate_instructions(self, simulation_state, environment):
        return self, self.instructions


class Scripted2(Scripted):
    """a second, later generator (C09 precedence)"""


INSTR = {
    "Idle": lambda v: IdleInstruction(v),
    "OutOfService": lambda v: OutOfServiceInstruction(v),
    "DispatchTrip": lambda v, r: DispatchTripInstruction(v, r),
    "DispatchStation": lambda v, s, c: DispatchStationInstruction(v, s, c),
    "ChargeStation": lambda v, s, c: ChargeStationInstruction(v, s, c),
    "DispatchBase": lambda v, b: DispatchBaseInstruction(v, b),
    "ReserveBase": lambda v, b: ReserveBaseInstruction(v, b),
    "ChargeBase": lambda v, b, c: ChargeBaseInstruction(v, b, c),
    "Reposition": lambda v, link: RepositionInstruction(v, link),
    # a pooling re-plan: ("I", "Pool", vehicle, "p0:D", "p1:P", "p1:D")
    "Pool": lambda v, *plan: _pool_instruction(v, plan),
}


def _pool_instruction(v, plan):
    from nrel.hive.dispatcher.instruction.instructions import DispatchPoolingTripInstruction
    from nrel.hive.model.vehicle.trip_phase import TripPhase

    ph = {"P": TripPhase.PICKUP, "D": TripPhase.DROPOFF}
    return DispatchPoolingTripInstruction(v, tuple((x.split(":")[0], ph[x.split(":")[1]]) for x in plan))


def mk_instruction(ev: Sequence) -> Any:
    """ev = ("I", kind, vehicle, *args)"""
    return INSTR[ev[1]](*ev[2:])


# ---------------------------------------------------------------------------------------------------
# the world


class World:
    """
    events (all JSON-able tuples):
      ("I", kind, vehicle_id, *args)   one controller instruction
      ("R", request_name)              the environment releases this request now
      ("P", price_row_name)            a price row becomes due now
    a transition input is a tuple of events (possibly empty = default transition)
    """

    name = "world"
    pairs = True  # also explore two simultaneous deviations (cost 2)
    keep_tod = False
    builtin_generators: Tuple[InstructionGenerator, ...] = ()

    def __init__(self):
        self.env: Environment = None  # type: ignore
        self.rn = None
        self.starts: Dict[str, SimulationState] = {}
        self.request_specs: Dict[str, dict] = {}
        self.price_rows: Dict[str, dict] = {}
        self.rate_structure = RequestRateStructure()
        self.throttle_rows: Dict[str, tuple] = {}  # name -> (station, plug, factor): run-time re-rating of a plug, once each
        self.controller_menu: List[tuple] = []  # static instruction menu
        self.needs: List[str] = []  # coverage cells this world must exercise (vacuity)

    # -- to be provided by concrete worlds -------------------------------------------------------
    def menu(self, sim: SimulationState, hv: Any) -> List[tuple]:
        """single deviations offered in this state"""
        evs = list(self.controller_menu)
        for name in self.request_specs:
            if name not in self.released(hv):
                evs.append(("R", name))
        for name in self.price_rows:
            evs.append(("P", name))
        for name in self.throttle_rows:
            if "T:" + name not in self.released(hv):
                evs.append(("T", name))
        return evs

    # the set of request names already released is the one history variable every world needs
    def hv0(self) -> Any:
        return frozenset()

    def released(self, hv) -> frozenset:
        return hv

    def hv0_for(self, label: str) -> Any:
        """history variable of a start state (worlds with start states in which something has already happened override)"""
        return self.hv0()

    def hv_next(self, hv, pre, events, post, reports) -> Any:
        rel = [e[1] for e in events if e[0] == "R"] + ["T:" + e[1] for e in events if e[0] == "T"]
        return hv | frozenset(rel) if rel else hv

    @staticmethod
    def slot(ev: tuple) -> str:
        return "v:" + ev[2] if ev[0] == "I" else "e:" + ev[0] + ":" + ev[1]

    # -- the real transition ----------------------------------------------------------------------
    @property
    def idle_clip(self) -> int:
        return int(self.env.config.dispatcher.idle_time_out_seconds) + int(
            self.env.config.sim.timestep_duration_seconds
        )

    def key(self, sim: SimulationState):
        return state_key(sim, self.idle_clip, self.keep_tod)

    def request_row(self, name: str, now: int) -> Dict[str, str]:
        spec = self.request_specs[name]
        olat, olon = h3.h3_to_geo(spec["origin"])
        dlat, dlon = h3.h3_to_geo(spec["destination"])
        row = {
            "request_id": name,
            "o_lat": repr(olat),
            "o_lon": repr(olon),
            "d_lat": repr(dlat),
            "d_lon": repr(dlon),
            "departure_time": str(int(now) - int(spec.get("age", 1))),
            "passengers": str(spec.get("passengers", 1)),
        }
        if spec.get("fleet_id"):
            row["fleet_id"] = spec["fleet_id"]
        if spec.get("allows_pooling"):
            row["allows_pooling"] = "true"  # the request file's optional column
        return row

    def generators(self, instructions) -> Tuple[InstructionGenerator, ...]:
        return tuple(self.builtin_generators) + (Scripted(instructions),)

    def step(self, sim: SimulationState, events: Sequence[tuple]):
        """one real simulation step; returns (post_state, reports)"""
        rep: CapturingReporter = self.env.reporter  # type: ignore
        rep.take()
        post = self._advance(sim, events)
        return post, rep.take()

    def _advance(self, sim: SimulationState, events: Sequence[tuple]) -> SimulationState:
        env = self.env
        sim = sim._replace(applied_instructions=immutables.Map())
        now = int(sim.sim_time)
        prices = [self.price_rows[e[1]] for e in events if e[0] == "P"]
        if prices:
            rows = [dict(r, time=str(now - 1)) for r in prices]
            upd = ChargingPriceUpdate(
                reader=DictReaderStepper.from_iterator(iter(rows), "time", parser=SimTime.build),
                use_defaults=False,
            )
            sim, _ = upd.update(sim, env)
        for e in events:
            if e[0] == "T":
                # the grid side re-rates a plug between two steps (Station.scale_charger_rate, the co-simulation hook)
                sid, cid, factor = self.throttle_rows[e[1]]
                err, sim2 = simulation_state_ops.modify_station(sim, sim.stations[sid].scale_charger_rate(cid, factor).unwrap())
                if err is not None or sim2 is None:
                    raise RuntimeError(f"throttle event {e}: {err}")
                sim = sim2
        arrivals = [e[1] for e in events if e[0] == "R"]
        if arrivals:
            rows = [self.request_row(n, now) for n in arrivals]
            sim = update_requests_from_iterator(iter(rows), sim, env, self.rate_structure)
        sim, _ = CancelRequests().update(sim, env)
        instructions = tuple(mk_instruction(e) for e in events if e[0] == "I")
        ctrl = StepSimulation.from_tuple(self.generators(instructions))
        if now != self._start_time():
            # not the first step of a run: the controller in the form StepSimulation.update hands it back at the end of every
            # step (a runner carries that object forward), i.e. after update_instruction_generators over the ordered generators
            ctrl = ctrl.update_instruction_generators(ctrl.ordered_instruction_generators)
        sim, carried = ctrl.update(sim, env)
        self._carried_controller = carried  # the controller a runner would carry into the next step (C16)
        return sim

    def dest_cell(self, name: str):
        """the cell a request is delivered to: its requested destination snapped to the network (identity on the straight-line
        network; on a street graph the nearest cell of the nearest link -- that snapping itself is C13's subject)"""
        memo = self.__dict__.setdefault("_dest_cells", {})
        if name not in memo:
            spec = self.request_specs.get(name)
            memo[name] = None if spec is None else self.rn.position_from_geoid(spec["destination"]).geoid
        return memo[name]

    def _start_time(self) -> int:
        t = getattr(self, "_t_start", None)
        if t is None and not self.starts:
            return -1  # still building the start state (a world stepping inside its constructor): carried form
        if t is None:
            t = self._t_start = min(int(s.sim_time) for s in self.starts.values())
        return t

    # -- replay -----------------------------------------------------------------------------------
    def run(self, history: Sequence):
        """history = (start_label, events_0, events_1, ...) -> final state, hv"""
        sim = self.starts[history[0]]
        hv = self.hv0_for(history[0])
        for evs in history[1:]:
            post, reports = self.step(sim, evs)
            hv = self.hv_next(hv, sim, evs, post, reports)
            sim = post
        return sim, hv


def events_to_json(evs) -> list:
    return [list(e) for e in evs]


def history_to_json(history) -> list:
    return [history[0]] + [events_to_json(e) for e in history[1:]]


def history_from_json(h) -> tuple:
    return (h[0],) + tuple(tuple(tuple(e) for e in evs) for evs in h[1:])
