"""
W-fifo (C18): one station, one DCFC plug (second configuration: DCFC:1 + LEVEL_2:1), four vehicles whose id order
differs from their arrival order: v9 is charging at the start, v5 and v1 are near (< 1 step), v3 is far (2 steps).
Menu: DispatchStation(s0, plug) to any vehicle (arrivals 0, 1, 2+ steps apart), Idle to any vehicle (the charging one
departs, queued ones abandon).  In the 'small' configuration v9 has a small battery and leaves by itself.
"""
from __future__ import annotations

from nrel.hive.model.roadnetwork.haversine_roadnetwork import HaversineRoadNetwork

from .worlds import World, build_sim, make_config, make_env, mk_station, mk_vehicle, sites


class FifoWorld(World):
    name = "W-fifo"

    def __init__(self, plugs=("DCFC",), small: bool = False, pairs: bool = True, name: str = "", full_v1: bool = False, t0: bool = False, midnight: bool = False, fleets: bool = False, human: int = 0, home_at_station: bool = False, drain: bool = False, l2_busy: bool = False, high_soc: bool = False):
        super().__init__()
        self.pairs = pairs
        self.name = name or ("W-fifo" + ("/2plugs" if len(plugs) > 1 else "") + ("/small" if small else "") + ("/full-arrival" if full_v1 else "") + ("/t0" if t0 else "")
                             + ("/midnight" if midnight else "") + ("/fleets" if fleets else "") + (f"/human-off-after-{human}" if human else "") + ("/home-at-station" if home_at_station else "") + ("/drain" if drain else "") + ("/both-busy" if l2_busy else "") + ("/high-soc" if high_soc else ""))
        S = sites()
        # t0: no early unplugging by the driver (soc limit 1.0), so that a charging vehicle leaves through the default
        # transition of the update phase when its battery is full (power-curve branch stops just below capacity)
        # midnight: the run starts three minutes before the end of a day, so the queue spans midnight
        # fleets: two of the vehicles belong to fleet f1, the station is public (no membership)
        t_start = 0 if t0 else (2 * 86400 - 180 if midnight else 8 * 3600)
        cfg = make_config(step=60, cancel=240, idle_timeout=100000, start=t_start, end=3 * 86400,
                          dispatcher={"ideal_fastcharge_soc_limit": 1.0} if t0 else None)
        schedules = None
        if human:
            def sched(sim, vehicle_id, _end=t_start + 60 * human):  # on shift for the first `human` steps after the start state
                return int(sim.sim_time) < _end

            schedules = {"early": sched}
            self.keep_tod = True
        self.env = make_env(cfg, fleets=("f1",) if fleets else (), schedules=schedules)
        fl = (lambda vid: ("f1",) if fleets and vid in ("v5", "v3") else ())
        env = self.env
        rn = HaversineRoadNetwork(sim_h3_resolution=15)
        self.rn = rn
        s0 = mk_station(env, rn, "s0", S["A"], {p: 1 for p in plugs})
        v9 = mk_vehicle(env, rn, "v9", S["A"], "small" if small else "quiet", soc=0.3, energy=0.0 if small else None)
        if t0:
            v9 = mk_vehicle(env, rn, "v9", S["A"], "quiet", energy=49.8955)  # full (>= 49.9 kWh) after two steps on the power curve
        v5 = mk_vehicle(env, rn, "v5", S["N1"], "quiet", soc=0.3, fleets=fl("v5"))
        if drain:
            # v5 has a tiny battery with idle draw: waiting in the queue empties it to exactly 0.0 after three steps
            v5 = mk_vehicle(env, rn, "v5", S["N1"], "tiny_thirsty", energy=0.12, fleets=fl("v5"))
        if high_soc:
            # v5 comes to top up from 85 %: above the level at which its driver unplugs it again (ideal_fastcharge_soc_limit 0.8), not full
            v5 = mk_vehicle(env, rn, "v5", S["N1"], "quiet", soc=0.85, fleets=fl("v5"))
        v3 = mk_vehicle(env, rn, "v3", S["M1"], "quiet", soc=0.3, fleets=fl("v3"))
        # full_v1: a small-battery vehicle that is still "full" when it arrives (must not block the queue)
        v1 = mk_vehicle(env, rn, "v1", S["N2"], "small", energy=1.0) if full_v1 else mk_vehicle(env, rn, "v1", S["N2"], "quiet", soc=0.3)
        bases = ()
        if human:
            # v1 is driven by a human who goes off shift during the run; no plug at home, so on the way home he wants to charge
            from .worlds import mk_base

            v1 = mk_vehicle(env, rn, "v1", S["N2"], "quiet", soc=0.3, schedule_id="early", home_base_id="hb")
            # home_at_station: the driver's home base stands on the station's cell and is served by that very station
            bases = (mk_base(rn, "hb", S["A"], stalls=1, station_id="s0"),) if home_at_station else (mk_base(rn, "hb", S["F1"], stalls=1, station_id=None),)
        if t0:
            # an initial layout at simulation time 0, built with the activities' own public enter():
            # v9 charging, v5 standing at the station and already queueing since t = 0
            from nrel.hive.state.vehicle_state.charge_queueing import ChargeQueueing
            from nrel.hive.state.vehicle_state.charging_station import ChargingStation

            v5 = mk_vehicle(env, rn, "v5", S["A"], "quiet", soc=0.3)
            init = build_sim(env, rn, vehicles=(v9, v5, v3, v1), stations=(s0,), start=0)
            err, s1 = ChargingStation.build("v9", "s0", "DCFC").enter(init, env)
            assert err is None and s1 is not None
            err, start = ChargeQueueing.build("v5", "s0", "DCFC", s1.sim_time).enter(s1, env)
            assert err is None and start is not None and int(start.vehicles["v5"].vehicle_state.enqueue_time) == 0
            self.starts = {"t0:v9-charging,v5-queued": start}
        else:
            init = build_sim(env, rn, vehicles=(v9, v5, v3, v1), stations=(s0,), bases=bases, start=t_start)
            start, _ = self.step(init, (("I", "ChargeStation", "v9", "s0", "DCFC"),))
            assert start.vehicles["v9"].vehicle_state.__class__.__name__ == "ChargingStation"
            self.starts = {"v9-charging": start}
            if l2_busy and "LEVEL_2" in plugs:
                # both plug types taken from the start (v3 stands at the station and charges on LEVEL_2): two queues can form at once
                v3b = mk_vehicle(env, rn, "v3", S["A"], "quiet", soc=0.3)
                v7 = mk_vehicle(env, rn, "v7", S["N3"], "quiet", soc=0.3)  # a third vehicle free to join a queue
                init2 = build_sim(env, rn, vehicles=(v9, v5, v3b, v1, v7), stations=(s0,), bases=bases, start=t_start)
                start2, _ = self.step(init2, (("I", "ChargeStation", "v9", "s0", "DCFC"), ("I", "ChargeStation", "v3", "s0", "LEVEL_2")))
                assert start2.vehicles["v3"].vehicle_state.__class__.__name__ == "ChargingStation"
                self.starts = {"v9-charging,v3-charging": start2}
        menu = []
        for vid in ("v9", "v5", "v3", "v1") + (("v7",) if l2_busy and "LEVEL_2" in plugs else ()):
            for p in plugs:
                menu.append(("I", "DispatchStation", vid, "s0", p))
            menu.append(("I", "Idle", vid))
        self.controller_menu = menu

    @property
    def idle_clip(self) -> int:
        return 0  # idle time-out far beyond the horizon: idle_duration is never read

    # -- history variable: the OBSERVED order of arrival in every queue ------------------------------------------------------
    # hv = (released, queues) with queues = (((station, plug), (batch, batch, ...)), ...): the vehicles seen waiting for that plug
    # type, grouped into batches that joined in the same step, earliest first.  It is built from what the harness sees happen
    # (who is in which queue after each step), never from the enqueue_time the library stamps, so that the first-come-first-served
    # oracle does not rest on the very field the queue logic reads and writes.

    def hv0_for(self, label: str):
        start = self.starts[label]
        by_queue = {}
        for vid, v in start.vehicles.items():
            st = v.vehicle_state
            if st.__class__.__name__ == "ChargeQueueing":
                # start states are built by the harness itself; their stamps are what the harness put there
                by_queue.setdefault((st.station_id, st.charger_id), {}).setdefault(int(st.enqueue_time), []).append(vid)
        queues = tuple(sorted((q, tuple(tuple(sorted(b)) for _, b in sorted(d.items()))) for q, d in by_queue.items()))
        return (self.hv0(), queues)

    def released(self, hv):
        return hv[0]

    def hv_next(self, hv, pre, events, post, reports):
        rel = World.hv_next(self, hv[0], pre, events, post, reports)
        old = dict(hv[1])
        now = {}
        for vid, v in post.vehicles.items():
            st = v.vehicle_state
            if st.__class__.__name__ == "ChargeQueueing":
                now.setdefault((st.station_id, st.charger_id), set()).add(vid)
        queues = []
        for q, members in sorted(now.items()):
            kept = [tuple(x for x in batch if x in members) for batch in old.get(q, ())]
            kept = [b for b in kept if b]
            seen = {x for b in kept for x in b}
            new = tuple(sorted(members - seen))
            if new:
                kept.append(new)
            queues.append((q, tuple(kept)))
        return (rel, tuple(queues))


def observed_rank(hv, station_id, charger_id):
    """{vehicle id: index of its arrival batch} for one queue, from the history variable; None if the world keeps none"""
    if not (isinstance(hv, tuple) and len(hv) == 2 and isinstance(hv[1], tuple)):
        return None
    for q, batches in hv[1]:
        if q == (station_id, charger_id):
            return {vid: i for i, b in enumerate(batches) for vid in b}
    return {}


def make(**kw):
    if "plugs" in kw:
        kw["plugs"] = tuple(kw["plugs"])
    return FifoWorld(**kw)
