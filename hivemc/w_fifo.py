"""
W-fifo (C18): one station, one DCFC plug (second configuration: DCFC:1 + LEVEL_2:1), four vehicles whose id order
differs from their arrival order: v9 is charging at the start, v5 and v1 are near (< 1 step), v3 is far (2 steps).
Menu: DispatchStation(s0, plug) to any vehicle (arrivals 0, 1, 2+ steps apart), Idle to any vehicle (the charging one
departs, queued ones abandon).  In the 'small' configuration v9 has a small battery and leaves by itself.
"""
from __future__ import annotations

from nrel.hive.model.roadnetwork.haversine_roadnetwork import HaversineRoadNetwork

from .worlds import World, build_sim, make_config, make_env, mk_station, mk_vehicle, sites


class FifoWorld(World):
    name = "W-fifo"

    def __init__(self, plugs=("DCFC",), small: bool = False, pairs: bool = True, name: str = ""):
        super().__init__()
        self.pairs = pairs
        self.name = name or ("W-fifo" + ("/2plugs" if len(plugs) > 1 else "") + ("/small" if small else ""))
        S = sites()
        cfg = make_config(step=60, cancel=240, idle_timeout=100000)
        self.env = make_env(cfg)
        env = self.env
        rn = HaversineRoadNetwork(sim_h3_resolution=15)
        self.rn = rn
        s0 = mk_station(env, rn, "s0", S["A"], {p: 1 for p in plugs})
        v9 = mk_vehicle(env, rn, "v9", S["A"], "small" if small else "quiet", soc=0.3, energy=0.0 if small else None)
        v5 = mk_vehicle(env, rn, "v5", S["N1"], "quiet", soc=0.3)
        v3 = mk_vehicle(env, rn, "v3", S["M1"], "quiet", soc=0.3)
        v1 = mk_vehicle(env, rn, "v1", S["N2"], "quiet", soc=0.3)
        init = build_sim(env, rn, vehicles=(v9, v5, v3, v1), stations=(s0,))
        start, _ = self.step(init, (("I", "ChargeStation", "v9", "s0", "DCFC"),))
        assert start.vehicles["v9"].vehicle_state.__class__.__name__ == "ChargingStation"
        self.starts = {"v9-charging": start}
        menu = []
        for vid in ("v9", "v5", "v3", "v1"):
            for p in plugs:
                menu.append(("I", "DispatchStation", vid, "s0", p))
            menu.append(("I", "Idle", vid))
        self.controller_menu = menu

    @property
    def idle_clip(self) -> int:
        return 0  # idle time-out far beyond the horizon: idle_duration is never read


def make(**kw):
    if "plugs" in kw:
        kw["plugs"] = tuple(kw["plugs"])
    return FifoWorld(**kw)
