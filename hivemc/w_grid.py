"""
W-grid: the resource world on a generated 2x3 street grid (OSMRoadNetwork built through its constructor), so that
routes have several links, positions carry real link ids, snapping matters and the road network is a mutable object.

   3 ---- 4 - 5        long streets (0-1, 3-4): 1.7 km at 100 km/h = 61 s  (two steps, split just before the end)
   |      |   |        vertical streets: 0.5 km at 40 km/h = 45 s; short streets (1-2, 4-5): 33 m at 10 km/h = 12 s
   0 ---- 1 - 2

  station s0 {DCFC:1, LEVEL_2:1} on node 1; station s1 {DCFC:1} on node 5; base b0 (1 stall, station bs {LEVEL_2:1}) on node 3;
  base b1 (1 stall) in the middle of street 4-5; v0 on node 0 (low energy), v1 in the middle of street 0-1 (small battery),
  v2 on node 3 (at the base); request r0 from node 2 to node 4; request r1 between two addresses 25 m beside streets 0-1 and 3-4.
"""
from __future__ import annotations

import h3

from .nets import build, link_positions
from .worlds import World, build_sim, make_config, make_env, mk_base, mk_station, mk_vehicle


class GridWorld(World):
    name = "W-grid"

    def __init__(self, pairs: bool = False, name: str = "", low_energy: bool = True, auto: bool = False):
        super().__init__()
        self.pairs = pairs
        self.auto = auto
        if name:
            self.name = name
        elif auto:
            self.name = "W-grid/auto"
        # auto: the default control stack (Dispatcher + ChargingFleetManager + the drivers' own time-outs) runs the fleet on the
        # street grid; the environment only decides when the two requests arrive
        cfg = make_config(step=60, cancel=240, idle_timeout=100000) if not auto else make_config(
            step=60, cancel=300, idle_timeout=120,
            dispatcher={"matching_range_km_threshold": 0.0, "charging_range_km_threshold": 1.0, "charging_range_km_soft_threshold": 6.0,
                        "base_charging_range_km_threshold": 200.0, "max_search_radius_km": 20.0})
        self.env = make_env(cfg)
        env = self.env
        rn = build(("grid", (100, 10, 100, 10, 40, 40, 40), (1, 1, 1, 1, 1, 1.5, 1), ()))
        self.rn = rn
        node = {n: rn.graph.nodes[n]["geoid"] if False else None for n in rn.graph.nodes}
        # node cells from the link table (start cell of any out-link)
        for lid, l in rn.link_helper.links.items():
            u = int(lid.split("-")[0])
            node[u] = l.start
        mid01 = link_positions(rn, "0-1", ("middle",))[0].geoid
        mid45 = link_positions(rn, "4-5", ("middle",))[0].geoid
        s0 = mk_station(env, rn, "s0", node[1], {"DCFC": 1, "LEVEL_2": 1})
        s1 = mk_station(env, rn, "s1", node[5], {"DCFC": 1})
        bs = mk_station(env, rn, "bs", node[3], {"LEVEL_2": 1})
        b0 = mk_base(rn, "b0", node[3], stalls=1, station_id="bs")
        b1 = mk_base(rn, "b1", mid45, stalls=1, station_id=None)
        v0 = mk_vehicle(env, rn, "v0", node[0], "quiet", soc=0.5, energy=0.35 if low_energy else None)
        v1 = mk_vehicle(env, rn, "v1", mid01, "small", energy=0.70)
        v2 = mk_vehicle(env, rn, "v2", node[3], "quiet", soc=0.5)
        self.starts = {"init": build_sim(env, rn, vehicles=(v0, v1, v2), stations=(s0, s1, bs), bases=(b0, b1))}
        # r1: both addresses lie BESIDE the street (25 m north of street 0-1 three quarters along, 25 m north of the middle of street
        # 3-4): the requested cells are not on any link and are snapped to the nearest cell of the nearest link
        from .nets import KM_PER_DEG_LAT, KM_PER_DEG_LON

        def beside(link_id, frac, east_m=0.0, north_m=0.0):
            link = rn.link_from_link_id(link_id)
            line = h3.h3_line(link.start, link.end)
            la, lo = h3.h3_to_geo(line[int(frac * (len(line) - 1))])
            return h3.geo_to_h3(la + north_m / 1000.0 / KM_PER_DEG_LAT, lo + east_m / 1000.0 / KM_PER_DEG_LON, 15)

        self.off_street = {"o": beside("0-1", 0.75, north_m=25.0), "d": beside("3-4", 0.5, north_m=25.0)}
        self.request_specs = {"r0": {"origin": node[2], "destination": node[4]},
                              "r1": {"origin": self.off_street["o"], "destination": self.off_street["d"]}}
        from nrel.hive.model.request import RequestRateStructure

        self.rate_structure = RequestRateStructure(base_price=1.37, price_per_mile=0.73, minimum_price=0.5)
        per_vehicle = [
            ("Idle",), ("OutOfService",), ("DispatchTrip", "r0"), ("DispatchTrip", "r1"), ("DispatchStation", "s0", "DCFC"), ("DispatchStation", "s1", "DCFC"),
            ("ChargeStation", "s0", "DCFC"), ("DispatchBase", "b0"), ("DispatchBase", "b1"), ("ReserveBase", "b0"),
            ("ChargeBase", "b0", "LEVEL_2"), ("Reposition", "5-2"), ("Reposition", "1-0"),
        ]
        self.controller_menu = [("I", k[0], vid) + tuple(k[1:]) for vid in ("v0", "v1", "v2") for k in per_vehicle]
        if auto:
            from nrel.hive.dispatcher.instruction_generator.charging_fleet_manager import ChargingFleetManager
            from nrel.hive.dispatcher.instruction_generator.dispatcher import Dispatcher

            self.builtin_generators = (Dispatcher(cfg.dispatcher), ChargingFleetManager(cfg.dispatcher))
            self.controller_menu = []
        self.atomic_menu = self.controller_menu
        self.atomic_pairs = False
        self.pair_menu = []

    @property
    def idle_clip(self) -> int:
        return World.idle_clip.fget(self) if self.auto else 0


def make(**kw):
    return GridWorld(**kw)
