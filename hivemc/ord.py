"""
ORD -- schedule exploration for C01: the schedule is the iteration order of each unordered collection that can
reach behaviour; the mechanism that realises a schedule is the interpreter's string-hash seed, which can only be
set at process start, so every schedule is one fresh subprocess.  Seeds are enumerated consecutively from
4096*VERIF_SEED (never drawn); each worker reports the orders it actually realised; the explorer stops when every
permutation of every declared collection of size <= 4 has been realised at least once, or reports the cap reached.
Oracle: every run equals the first run of the same scenario on per-step states, per-step event multisets and
summary statistics.
"""
from __future__ import annotations

import itertools
import json
import math
import os
import shutil
import subprocess
import sys
import time
from concurrent.futures import ThreadPoolExecutor
from typing import Any, Dict, List, Optional, Tuple

from . import REPO, VERIF, ncpu, seed, tier
from .report import Check, Finding, log
from .scen import scratch_dir

PY = sys.executable


def run_worker(hashseed: int, scenarios: List[str], outdir: str, counters=False, full: Optional[str] = None) -> dict:
    out = os.path.join(outdir, f"seed{hashseed}{'_full' if full else ''}{'_c' if counters else ''}_{'-'.join(scenarios)}.json")
    env = dict(os.environ, PYTHONHASHSEED=str(hashseed), PYTHONPATH=VERIF, VERIF_REPO=REPO, _HIVEMC_REEXEC="1", TZ=process_tz(hashseed))
    cmd = [PY, "-m", "hivemc.ord_worker", out, ",".join(scenarios)]
    if counters:
        cmd.append("--counters")
    if full:
        cmd += ["--full", full]
    p = subprocess.run(cmd, env=env, capture_output=True, text=True, cwd=VERIF, timeout=1200)
    if p.returncode != 0 or not os.path.exists(out):
        return {"error": (p.stderr or p.stdout)[-3000:], "hashseed": hashseed}
    with open(out) as f:
        r = json.load(f)
    os.remove(out)
    r["hashseed"] = hashseed
    return r


# "whichever process runs it": besides the hash seed, processes differ in their local time zone (POSIX TZ strings, no tz
# database needed); the zone is a function of the schedule's seed so that every finding replays
TZS = ("UTC0", "JST-9", "MST7", "CET-1")


def process_tz(hashseed: int) -> str:
    return TZS[hashseed % len(TZS)]


def first_divergence(a: dict, b: dict) -> Optional[Tuple[int, str]]:
    for k, (x, y) in enumerate(zip(a["steps"], b["steps"])):
        if x["t"] != y["t"]:
            return k, "clock"
        if x["state"] != y["state"]:
            return k, "state"
        if x["events"] != y["events"]:
            return k, "events"
    if len(a["steps"]) != len(b["steps"]):
        return min(len(a["steps"]), len(b["steps"])), "length"
    if a["stats"] != b["stats"]:
        return len(a["steps"]), "summary_stats"
    return None


def explain(base_seed: int, other_seed: int, scen: str, step: int, outdir: str) -> str:
    a = run_worker(base_seed, [scen], outdir, full=f"{scen}:{step}")
    b = run_worker(other_seed, [scen], outdir, full=f"{scen}:{step}")
    try:
        fa, fb = a["runs"][0]["full"], b["runs"][0]["full"]
    except Exception:
        return "(no detail available)"
    if fa["state"] != fb["state"]:
        # find the first differing position and show some context
        sa, sb = fa["state"], fb["state"]
        i = next((i for i, (x, y) in enumerate(zip(sa, sb)) if x != y), min(len(sa), len(sb)))
        lo = max(0, i - 160)
        return f"state after step {step} differs: ...{sa[lo:i+120]}... vs ...{sb[lo:i+120]}..."
    ea, eb = set(fa["events"]), set(fb["events"])
    only_a, only_b = sorted(ea - eb)[:2], sorted(eb - ea)[:2]
    return f"events of step {step} differ: only seed {base_seed}: {only_a}; only seed {other_seed}: {only_b}"


def perm_space(sig_sizes: Dict[str, int]) -> Dict[str, int]:
    return {k: math.factorial(n) for k, n in sig_sizes.items() if 2 <= n <= 4}


def c01() -> int:
    c = Check("C01", "schedule exploration over iteration orders: consecutive interpreter hash seeds in fresh processes until the declared order space is covered")
    quick = tier() == "quick"
    base = 4096 * seed()
    cap = 160 if quick else 1024
    small = ["S1", "S2", "S3", "S2t", "S4"]
    big = ["S6"] if quick else ["S5", "S6"]
    big_seeds = 24 if quick else 96
    min_seeds = 0 if quick else 320  # thorough: keep going after 1-wise coverage (joint orders of several collections)
    outdir = scratch_dir("hivemc_ord_")
    workers = ncpu()
    t0 = time.time()
    try:
        # baseline twice (same seed => identical: guards the harness itself) + contention counters
        with ThreadPoolExecutor(workers) as ex:
            f0 = ex.submit(run_worker, base, small + big, outdir, True)
            f1 = ex.submit(run_worker, base, small + big, outdir, False)
            b0, b1 = f0.result(), f1.result()
        for r in (b0, b1):
            if "error" in r:
                raise RuntimeError("ORD worker failed: " + r["error"])
        baseline = {run["scenario"]: run for run in b1["runs"]}
        for run in b0["runs"]:
            if first_divergence(run, baseline[run["scenario"]]) is not None:
                raise RuntimeError(f"harness: the same hash seed gave two different runs of {run['scenario']} (uncontrolled nondeterminism)")
        counters = {run["scenario"]: run["counters"] or {} for run in b0["runs"]}
        # repetition inside ONE interpreter: every generated scenario twice in a row, and once more after the others --
        # all three must equal the run in a fresh process (state that survives in module-level objects between runs)
        # (the primer scenario S0g comes first: same station ids as the others, gas pumps only)
        rep = run_worker(base, ["S0g"] + small + list(reversed(small)) + small[:1], outdir, False)
        if "error" in rep:
            raise RuntimeError("ORD worker failed: " + rep["error"])
        repetitions = 0
        for k, run in enumerate(rep["runs"]):
            if run["scenario"] == "S0g":
                continue
            repetitions += 1
            dv = first_divergence(baseline[run["scenario"]], run)
            if dv is not None:
                c.add(
                    Finding(
                        "C01",
                        ("repetition_in_process", dv[1]),
                        f"scenario {run['scenario']} run as #{k+1} of a sequence of runs inside one interpreter differs from its run in a fresh process at step {dv[0]} ({dv[1]}): something survives between runs",
                        {"engine": "ord", "scenario": run["scenario"], "seeds": [base, base], "step": dv[0], "repetition": ["S0g"] + small + list(reversed(small)) + small[:1]},
                    )
                )
                break
        need = {
            "S1": ["multi_fleet_vehicle_dispatched", "two_vehicles_reach_same_target_same_step"],
            "S2": ["plug_ranking_tied", "station_search_tied", "two_vehicles_reach_same_target_same_step", "competing_instructions_same_target_same_step", "plug_granted_among_tied_queuers"],
            "S3": ["competing_instructions_same_target_same_step", "reposition_with_demand_tied_between_cells"],
            "S2t": ["two_vehicles_reach_same_target_same_step", "queued_vehicles_share_enqueue_time"],
            "S4": ["plug_ranking_tied"],
        }
        for sc, cells in need.items():
            for cell in cells:
                if not counters.get(sc, {}).get(cell):
                    c.vacuous.append(f"{sc}:{cell}")
        seen_orders: Dict[str, Dict[str, set]] = {sc: {} for sc in small + big}
        sizes: Dict[str, Dict[str, int]] = {sc: {} for sc in small + big}
        outcomes: Dict[str, set] = {sc: set() for sc in small + big}
        runs_done: Dict[str, int] = {sc: 0 for sc in small + big}
        diverged: Dict[str, List[int]] = {sc: [] for sc in small + big}
        first_div: Dict[str, Tuple[int, int, str]] = {}

        def absorb(r):
            for run in r["runs"]:
                sc = run["scenario"]
                runs_done[sc] += 1
                for k, order in run["signature"].items():
                    seen_orders[sc].setdefault(k, set()).add(tuple(order))
                    sizes[sc][k] = len(order)
                outcomes[sc].add((tuple(s["state"] for s in run["steps"]), tuple(s["events"] for s in run["steps"]), run["stats"]))
                dv = first_divergence(baseline[sc], run)
                if dv is not None:
                    diverged[sc].append(r["hashseed"])
                    if sc not in first_div or dv[0] < first_div[sc][1]:
                        first_div[sc] = (r["hashseed"], dv[0], dv[1])

        absorb(b1)

        def covered(sc) -> bool:
            space = perm_space(sizes[sc])
            return all(len(seen_orders[sc].get(k, ())) >= n for k, n in space.items())

        nxt = base + 1
        while nxt < base + cap:
            todo_small = [sc for sc in small if not covered(sc) or runs_done[sc] < min_seeds]
            todo_big = [sc for sc in big if runs_done[sc] < big_seeds and not covered(sc)]
            if not todo_small and not todo_big:
                break
            batch = list(range(nxt, min(nxt + workers, base + cap)))
            nxt = batch[-1] + 1
            with ThreadPoolExecutor(workers) as ex:
                results = list(ex.map(lambda s: run_worker(s, todo_small + todo_big, outdir), batch))
            for r in results:
                if "error" in r:
                    raise RuntimeError("ORD worker failed: " + r["error"])
                absorb(r)
        for sc, (s2, step, kind) in sorted(first_div.items()):
            detail = explain(base, s2, sc, step, outdir)
            c.add(
                Finding(
                    "C01",
                    ("diverges", sc),
                    f"scenario {sc}: the process with hash seed {s2} (TZ={process_tz(s2)}{', launched from a directory holding stray files named like the default assets' if s2 % 3 == 1 else ''}) differs from the one with hash seed {base} (TZ={process_tz(base)}{', launched from a directory holding stray files named like the default assets' if base % 3 == 1 else ''}) at step {step} ({kind}); {len(diverged[sc])} of {runs_done[sc]} seeds diverge, {len(outcomes[sc])} distinct simulations. {detail}",
                    {"engine": "ord", "scenario": sc, "seeds": [base, s2], "step": step},
                )
            )
        total_runs = sum(runs_done.values())
        cov_rows = {}
        all_cov = True
        for sc in small + big:
            space = perm_space(sizes[sc])
            cov_rows[sc] = {
                "seeds_run": runs_done[sc],
                "order_space": {k: f"{len(seen_orders[sc].get(k, ()))}/{n}" for k, n in sorted(space.items())},
                "covered": covered(sc),
                "distinct_simulations": len(outcomes[sc]),
                "seeds_diverging_from_first": len(diverged[sc]),
                "contention_counters": counters.get(sc, {}),
                "steps": len(baseline[sc]["steps"]),
            }
            if sc in small and not covered(sc):
                all_cov = False
        nsteps = sum(runs_done[sc] * len(baseline[sc]["steps"]) for sc in small + big)
        c.coverage.update(
            {
                "states": nsteps,
                "transitions": nsteps,
                "traces_validated_against_impl": total_runs,
                "evaluations": total_runs,
                "distinct_nontrivial": sum(len(v) for sc in small + big for v in seen_orders[sc].values()),
                "rule": "one evaluation = one scenario run in a fresh interpreter under one hash seed (consecutive from 4096*VERIF_SEED); distinct non-trivial = distinct realised iteration orders over all declared collections; stop when every permutation of every declared collection of size <= 4 was realised, else at the cap",
                "scenarios": cov_rows,
                "seed_block": [base, nxt - 1],
                "in_process_repetitions": repetitions,
                "cap": cap,
                "samples": [{"scenario": sc, "hash_seed": base, "order_signature": baseline[sc]["signature"]} for sc in small[:2]],
            }
        )
        c.exhaustive = all_cov
        if not all_cov:
            c.notes.append("seed cap reached before the declared order space of every generated scenario was covered; see coverage.scenarios[*].order_space")
        c.assumptions += [
            "hash values influence behaviour only through the iteration order of str-keyed sets / Maps (hash() and id() are never used directly)",
            "S5/S6 are the shipped inputs on the straight-line network (OSMRoadNetwork.from_file is unusable under the installed networkx); they are run for a fixed number of seeds, not to coverage",
        ]
        log(f"  C01: {total_runs} scenario runs over hash seeds {base}..{nxt-1} in {time.time()-t0:.1f}s; " + "; ".join(f"{sc}: {runs_done[sc]} seeds, {len(outcomes[sc])} outcome(s), covered={covered(sc)}" for sc in small + big))
    finally:
        shutil.rmtree(outdir, ignore_errors=True)
    return c.finish()


def replay(body) -> int:
    rp = body["replay"]
    outdir = scratch_dir("hivemc_ord_")
    try:
        if rp.get("repetition"):
            fresh = {sc: run_worker(rp["seeds"][0], [sc], outdir)["runs"][0] for sc in sorted(set(rp["repetition"]))}
            seq = run_worker(rp["seeds"][0], rp["repetition"], outdir)
            for k, run in enumerate(seq["runs"]):
                dv = first_divergence(fresh[run["scenario"]], run)
                if dv is not None:
                    print(f"run #{k+1} ({run['scenario']}) of the in-process sequence {rp['repetition']} differs from a fresh process at step {dv[0]} ({dv[1]})")
                    print(f"VIOLATION property=C01 replay={body.get('_path')}")
                    return 1
            print("in-process repetitions equal fresh-process runs: not reproduced on this tree")
            return 0
        a = run_worker(rp["seeds"][0], [rp["scenario"]], outdir)
        b = run_worker(rp["seeds"][1], [rp["scenario"]], outdir)
        dv = first_divergence(a["runs"][0], b["runs"][0])
        if dv is None:
            print(f"hash seeds {rp['seeds']} give identical runs of {rp['scenario']}: not reproduced on this tree")
            return 0
        print(f"hash seeds {rp['seeds']} diverge at step {dv[0]} ({dv[1]})")
        print(explain(rp["seeds"][0], rp["seeds"][1], rp["scenario"], dv[0], outdir))
        print(f"VIOLATION property=C01 replay={body.get('_path')}")
        return 1
    finally:
        shutil.rmtree(outdir, ignore_errors=True)
