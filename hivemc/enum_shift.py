"""
C20 -- human drivers follow their shift schedule.

Every (start, end) pair over six clock times (normal, wrapping past midnight, empty, touching midnight) as one
schedule each, written as a real schedules CSV + vehicles CSV and loaded through load_scenario; one human driver per
schedule; for every step length and simulation start time the scenario is run for two days and, step by step,
availability, on/off events and the dispatcher's assignments are compared with a seconds-of-day interval test.
"""
from __future__ import annotations

import itertools
import shutil
from typing import Any, Dict, List, Tuple

from . import seed, tier
from .enumrun import pmap, rotate
from .report import Check, Finding, log
from .scen import Recorder, load, scratch_dir, write_global_config, write_scenario
from .worlds import sites

from nrel.hive.dispatcher.instruction_generator.charging_fleet_manager import ChargingFleetManager
from nrel.hive.dispatcher.instruction_generator.dispatcher import Dispatcher
from nrel.hive.dispatcher.instruction_generator.instruction_generator import InstructionGenerator
from nrel.hive.reporting.handler.handler import Handler

CLOCK = ("00:00:00", "00:01:00", "06:00:00", "12:00:00", "17:00:00", "23:59:00")
# 05:59:59: every step length used here then also begins steps at hh:mm:59 -- one second before each clock time of the shift tables,
# 23:59:59 included (the last second of a shift that ends at midnight)
STARTS = {"00:00": 0, "05:59:59": 5 * 3600 + 59 * 60 + 59, "23:30": 23 * 3600 + 30 * 60}


def secs(hms: str) -> int:
    h, m, s = hms.split(":")
    return int(h) * 3600 + int(m) * 60 + int(s)


def in_shift(a: int, b: int, tod: int) -> bool:
    """start inclusive, end exclusive, may wrap past midnight"""
    if a <= b:
        return a <= tod < b
    return tod >= a or tod < b


class RecordingDispatcher(InstructionGenerator):
    """the real Dispatcher, with its output recorded per call (name differs so both can be told apart)"""

    def __init__(self, inner: Dispatcher, log: list):
        self.inner = inner
        self.log = log

    def generate_instructions(self, simulation_state, environment):
        inner, instrs = self.inner.generate_instructions(simulation_state, environment)
        self.log.append((int(simulation_state.sim_time), tuple((i.vehicle_id, i.request_id) for i in instrs)))
        return RecordingDispatcher(inner, self.log), instrs


class EventTap(Handler):
    def __init__(self):
        self.steps = []

    def handle(self, reports, runner_payload):
        ev = [(r.report["vehicle_id"], r.report["schedule_event"], int(r.report["sim_time_start"])) for r in reports if r.report_type.name == "DRIVER_SCHEDULE_EVENT"]
        avail = {vid: v.driver_state.available for vid, v in runner_payload.s.vehicles.items()}
        self.steps.append((int(runner_payload.s.sim_time), ev, avail))

    def close(self, runner_payload):
        pass


def _shard(shard) -> Dict[str, Any]:
    step, start_name = shard
    from nrel.hive.app import hive_cosim

    start = STARTS[start_name]
    S = sites()
    d = scratch_dir("hivemc_c20_")
    out = {"runs": 0, "steps": 0, "schedule_steps": 0, "flips": 0, "findings": {}, "samples": []}
    try:
        write_global_config(d)
        pairs = list(itertools.product(CLOCK, CLOCK))
        schedules = [(f"s{i}", a, b) for i, (a, b) in enumerate(pairs)]
        # the drivers live 2 km away (a home base of their own on F1, each with a plug -- drivers sharing a home base lose access to it): going off shift they drive home for several 60 s steps, so a short
        # break between two shifts ends while they are still under way
        vehicles = [{"id": f"h{i:02d}", "cell": S["A"], "mech": "leaf_50", "soc": 0.9, "schedule_id": f"s{i}", "home_base_id": f"hf{i:02d}"} for i in range(len(pairs))]
        # a second driver per schedule whose vehicle starts with an empty battery: it is out of service from the first step on, and its
        # driver comes on and goes off shift all the same
        vehicles += [{"id": f"e{i:02d}", "cell": S["N2"], "mech": "leaf_50", "soc": 0.0, "schedule_id": f"s{i}", "home_base_id": "hb"} for i in range(len(pairs))]
        # autonomous vehicles whose ids sort before AND after the human drivers' ids (drivers are updated in id order)
        vehicles.append({"id": "av", "cell": S["N1"], "mech": "leaf_50", "soc": 0.9})
        vehicles.append({"id": "zv", "cell": S["N1"], "mech": "leaf_50", "soc": 0.9})
        nsteps = (2 * 86400) // step + 2
        end = start + nsteps * step
        # one request per step next to the human drivers
        requests = [(f"r{k}", S["A"], S["N2"], start + k * step + step // 2, 1) for k in range(nsteps)]
        path = write_scenario(
            d, "shifts", start=start, end=end, step=step, cancel=max(step, 60),
            vehicles=vehicles, requests=requests, bases=[("hb", S["A"], "hbs", 100)] + [(f"hf{i:02d}", S["F1"], f"hfs{i:02d}", 1) for i in range(len(pairs))],
            stations=[("hbs", S["A"], "LEVEL_2", 100, False)] + [(f"hfs{i:02d}", S["F1"], "LEVEL_2", 1, False) for i in range(len(pairs))] + [ ("s0", S["N1"], "DCFC", 10, True)],
            schedules=schedules, dispatcher={"matching_range_km_threshold": 1, "idle_time_out_seconds": 10 * step},
        )
        dlog: list = []
        rp = load(path, generators=None)
        # re-build the update with the recording dispatcher in front (same generators as load_simulation's default)
        from nrel.hive.state.simulation_state.update.step_simulation import StepSimulation

        gens = (RecordingDispatcher(Dispatcher(rp.e.config.dispatcher), dlog), ChargingFleetManager(rp.e.config.dispatcher))
        rp = rp._replace(u=rp.u._replace(step_update=StepSimulation.from_tuple(gens)))
        tap = EventTap()
        rp.e.reporter.add_handler(tap)
        out["runs"] += 1
        prev = {v["id"]: False for v in vehicles if v.get("schedule_id")}  # initial state: unavailable
        for k in range(nsteps):
            t = int(rp.s.sim_time)
            rp = hive_cosim.crank(rp, 1).runner_payload
            _, evs, avail = tap.steps[-1]
            out["steps"] += 1
            tod = t % 86400
            disp = [x for x in dlog if x[0] == t]
            dispatched = {vid for _, instrs in disp for vid, _ in instrs}
            for prefix, (i, (a, b)) in itertools.product(("h", "e"), enumerate(pairs)):
                vid = f"{prefix}{i:02d}"
                if prefix == "e" and rp.s.vehicles[vid].vehicle_state.__class__.__name__ == "OutOfService":
                    out["stranded_steps"] = out.get("stranded_steps", 0) + 1
                if prefix == "h" and rp.s.vehicles[vid].vehicle_state.__class__.__name__ == "DispatchBase" and in_shift(secs(a), secs(b), tod):
                    out["shift_began_on_the_way_home"] = out.get("shift_began_on_the_way_home", 0) + 1
                want = in_shift(secs(a), secs(b), tod)
                out["schedule_steps"] += 1
                kind = "wrapping" if secs(a) > secs(b) else ("empty" if a == b else "normal")
                rpdata = {"step": step, "start": start_name, "schedule": [a, b], "at": t, "vehicle": vid}
                if avail[vid] != want:
                    out["findings"].setdefault(("availability", kind, "available_off_shift" if avail[vid] else "unavailable_on_shift"), (f"step {step}, start {start_name}: driver with shift [{a}, {b}) is {'available' if avail[vid] else 'unavailable'} in the step beginning {t} (time of day {tod})", rpdata))
                mine = [e for e in evs if e[0] == vid]
                flipped = want != prev[vid]
                if flipped:
                    out["flips"] += 1
                    exp = "on" if want else "off"
                    if [e[1] for e in mine] != [exp]:
                        out["findings"].setdefault(("event", kind, "missing_or_wrong"), (f"driver with shift [{a}, {b}) flipped to {exp} in the step beginning {t} but events were {mine}", rpdata))
                elif mine:
                    out["findings"].setdefault(("event", kind, "spurious"), (f"driver with shift [{a}, {b}) did not flip in the step beginning {t} but events were {mine}", rpdata))
                if not want and vid in dispatched:
                    out["findings"].setdefault(("dispatched_off_shift", kind), (f"dispatcher assigned a request to the driver with shift [{a}, {b}) in the step beginning {t} (off shift)", rpdata))
                prev[vid] = want
            if len(out["samples"]) < 1 and k == 3:
                out["samples"].append({"step": step, "start": start_name, "at": t, "available": sorted(v for v, a2 in avail.items() if a2)[:6]})
        out["dispatch_calls"] = len(dlog)
        out["dispatch_pairs"] = sum(len(x[1]) for x in dlog)
    finally:
        shutil.rmtree(d, ignore_errors=True)
    out["findings"] = [(list(k), m, rp2) for k, (m, rp2) in out["findings"].items()]
    return out


def dispatcher_probe(c: Check):
    """the third clause at the API level: in every kind of dispatcher pass (no fleets / a named fleet / the pass of the
    fleet-less) a human driver who is off shift gets no DispatchTrip, one who is on shift does"""
    from .enum_dispatch import Ctx
    from .worlds import sites
    from nrel.hive.state.driver_state.human_driver_state.human_driver_attributes import HumanDriverAttributes
    from nrel.hive.state.driver_state.human_driver_state.human_driver_state import HumanAvailable, HumanUnavailable
    from nrel.hive.state.simulation_state import simulation_state_ops

    S = sites()
    n = 0
    positive = 0
    for declared in ((), ("f1",), ("f1", "f2")):
        ctx = Ctx(tuple(declared))
        for vfleet in ("member", "none"):
            for rkind in ("fleet", "public"):
                if not declared and (vfleet == "member" or rkind == "fleet"):
                    pass  # without declared fleets memberships are ignored; still a valid case
                for on_shift in (True, False):
                    v = ctx.vehicle(0, S["A"], "eligible" if vfleet == "member" else "no_fleet")
                    attrs = HumanDriverAttributes(v.id, "sched", "hb", False)
                    v = v.modify_driver_state(HumanAvailable(attrs) if on_shift else HumanUnavailable(attrs))
                    r = ctx.request(0, S["N1"], "waiting" if rkind == "fleet" else "public")
                    sim = ctx.sim([v], [r])
                    _, instrs = ctx.dispatcher.generate_instructions(sim, ctx.env)
                    n += 1
                    got = [(i.vehicle_id, i.request_id) for i in instrs]
                    if not on_shift and got:
                        c.add(Finding("C20", ("dispatched_off_shift", "api_level", "pass_of_the_fleetless" if (declared and vfleet == "none") else ("named_fleet" if declared else "no_fleets")),
                                      f"declared fleets {list(declared)}, vehicle {vfleet}, request {rkind}: the dispatcher pairs an OFF-shift human driver: {got}",
                                      {"engine": "enum_shift", "probe": True}))
                    if on_shift and got:
                        positive += 1
    c.coverage["dispatcher_probe_cases"] = n
    c.coverage["dispatcher_probe_on_shift_pairs"] = positive
    if positive == 0:
        c.vacuous.append("dispatcher probe: no on-shift driver was ever paired")
    log(f"  C20 dispatcher probe: {n} cases, {positive} on-shift pairings")


def c20() -> int:
    c = Check("C20", "bounded exhaustive enumeration of shift tables x step lengths x start times through load_scenario and crank, against an interval reference")
    quick = tier() == "quick"
    steps = (60, 900, 3600, 5400) if quick else (30, 60, 420, 900, 3600, 5400)
    shards = [(st, sn) for st in steps for sn in STARTS]
    res = pmap(_shard, rotate(shards, seed()))
    for r in res:
        for sig, msg, rp in r["findings"]:
            c.add(Finding("C20", sig, msg, dict(rp, engine="enum_shift")))
    sched_steps = sum(r["schedule_steps"] for r in res)
    flips = sum(r["flips"] for r in res)
    c.coverage.update(
        {
            "states": sched_steps,
            "transitions": sum(r["steps"] for r in res),
            "traces_validated_against_impl": sum(r["runs"] for r in res),
            "evaluations": sched_steps,
            "distinct_nontrivial": flips,
            "rule": f"36 shift tables (all (start, end) over {CLOCK}: normal, wrapping, empty, touching midnight) x step lengths {steps} x start times {list(STARTS)}, each driven twice: a vehicle at 90 % and one that starts empty (out of service throughout), beside autonomous vehicles whose ids sort before and after the drivers'; two days + 2 steps each; non-trivial = (schedule, step) instances in which availability flips",
            "stranded_driver_steps": sum(r.get("stranded_steps", 0) for r in res),
            "shift_began_while_driving_home": sum(r.get("shift_began_on_the_way_home", 0) for r in res),
            "dispatcher_calls": sum(r.get("dispatch_calls", 0) for r in res),
            "dispatcher_pairs": sum(r.get("dispatch_pairs", 0) for r in res),
            "samples": [s for r in res for s in r["samples"]][:3],
        }
    )
    c.exhaustive = True
    c.assumptions += ["availability is read after the step; the reference uses the time at which the step began"]
    log(f"  C20: {len(shards)} runs, {sched_steps} (schedule, step) instances, {flips} flips, {c.coverage['dispatcher_pairs']} dispatcher pairs")
    dispatcher_probe(c)
    if c.coverage["stranded_driver_steps"] == 0:
        c.vacuous.append("no human-driven vehicle was ever out of service while its shift table was being checked")
    if c.coverage["dispatcher_pairs"] == 0:
        c.vacuous.append("dispatcher never assigned anything")
    return c.finish()


def replay(body) -> int:
    rp = body["replay"]
    if rp.get("probe"):
        c = Check("C20", "probe")
        dispatcher_probe(c)
        for f in c.findings.values():
            print(" | ".join(f.signature), "::", f.message)
        if c.findings:
            print(f"VIOLATION property=C20 replay={body.get('_path')}")
            return 1
        print("not reproduced on this tree")
        return 0
    r = _shard((rp["step"], rp["start"]))
    for sig, msg, _ in r["findings"]:
        print(" | ".join(sig), "::", msg)
    if r["findings"]:
        print(f"VIOLATION property=C20 replay={body.get('_path')}")
        return 1
    print("not reproduced on this tree")
    return 0
