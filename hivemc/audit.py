"""
Static audit of the FSX key abstraction (DESIGN.md 2.3): the canonical key drops fields that are written but never
read by transition code.  This walks the library's sources (outside reporting/, resources/, app/) and lists every
attribute READ of a dropped field name; reads outside the known accumulate-and-store sites mean the abstraction is
no longer sound for that field, which is then put back into the key (less merging, same verdicts).
"""
from __future__ import annotations

import ast
import os
from typing import Dict, List, Set, Tuple

from . import REPO

# field name -> (class whose field is dropped)
DROPPED = {
    "balance": ("Vehicle", "Station"),
    "distance_traveled_km": ("Vehicle",),
    "energy_gained": ("Vehicle",),
    "energy_expended": ("Vehicle",),
    "energy_dispensed": ("Station",),
    "dispatched_vehicle_time": ("Request",),
    "departure_time": ("ServicingTrip", "Passenger"),  # Request.departure_time is kept (relative)
    "instance_id": ("*",),
    "applied_instructions": ("SimulationState",),
}

# (file suffix, enclosing function) pairs where a read is part of "read old value, store old + delta" or pure reporting
ALLOWED = {
    ("model/vehicle/vehicle.py", "send_payment"),
    ("model/vehicle/vehicle.py", "receive_payment"),
    ("model/vehicle/vehicle.py", "tick_distance_traveled_km"),
    ("model/vehicle/vehicle.py", "tick_energy_expended"),
    ("model/vehicle/vehicle.py", "tick_energy_gained"),
    ("model/station/station.py", "receive_payment"),
    ("model/station/station.py", "tick_energy_dispensed"),
    ("state/simulation_state/update/step_simulation_ops.py", "apply_instructions"),
    # Request.departure_time (kept in the key, relative to now) is read here:
    ("state/simulation_state/update/cancel_requests.py", "_remove_from_sim"),
    ("state/simulation_state/update/cancel_requests.py", "_gen_report"),
    ("state/simulation_state/update/update_requests_from_file.py", "_update"),
    ("model/request/request.py", "build"),
    ("model/request/request.py", "from_row"),
    ("state/simulation_state/update/update_requests_sampling.py", "_add_request"),
    # pooling activities are outside every world (allows_pooling=False)
    ("state/vehicle_state/servicing_ops.py", "complete_trip_phase"),
    ("state/vehicle_state/dispatch_ops.py", "begin_or_replan_dispatch_pooling_state"),
    ("state/vehicle_state/dispatch_ops.py", "create_dispatch_pooling_trip"),
}

SKIP_DIRS = ("reporting", "resources", "app", "initialization", "config")


def scan(repo: str = REPO) -> List[Tuple[str, str, str, int]]:
    root = os.path.join(repo, "nrel", "hive")
    found = []
    for dirpath, dirs, files in os.walk(root):
        rel = os.path.relpath(dirpath, root)
        if rel.split(os.sep)[0] in SKIP_DIRS:
            continue
        for fn in files:
            if not fn.endswith(".py"):
                continue
            path = os.path.join(dirpath, fn)
            try:
                tree = ast.parse(open(path).read())
            except SyntaxError:
                continue
            relf = os.path.relpath(path, root)

            class V(ast.NodeVisitor):
                def __init__(self):
                    self.fn = ["<module>"]

                def visit_FunctionDef(self, node):
                    self.fn.append(node.name)
                    self.generic_visit(node)
                    self.fn.pop()

                visit_AsyncFunctionDef = visit_FunctionDef

                def visit_Attribute(self, node):
                    if isinstance(node.ctx, ast.Load) and node.attr in DROPPED:
                        found.append((relf, self.fn[-1], node.attr, node.lineno))
                    self.generic_visit(node)

            V().visit(tree)
    return found


def unexpected(repo: str = REPO) -> List[Tuple[str, str, str, int]]:
    return [f for f in scan(repo) if (f[0].replace(os.sep, "/"), f[1]) not in ALLOWED]


def fields_to_keep(repo: str = REPO) -> Set[str]:
    return {f[2] for f in unexpected(repo)}


if __name__ == "__main__":
    bad = unexpected()
    for f in bad:
        print("UNEXPECTED READ of a dropped field:", f)
    print(f"{len(scan())} reads of dropped field names, {len(bad)} outside the allow-list")
