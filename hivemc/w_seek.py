"""
W-seek: two nearly empty vehicles of DIFFERENT fleets looking for a plug from the same search cell, under the built-in
ChargingFleetManager (+ Dispatcher).  What each of them may use lies at a different ring depth of the station search:

   search cell C_N: A, N1, N2, N3          neighbouring search cell C_X: X1, X2, X3

   station sn {DCFC:1} on N3, fleet f1 only  (ring 0 for both vehicles; usable by v1 only; 0.62 km from v1)
   station sx {DCFC:1} on X2, public         (ring 1 for both vehicles; the only one v2 may use; 0.37 km from v1 -- nearer than sn)
   v1 (f1) small battery, 1.5 km of range, on N2         v2 (f2) small battery, nearly empty, on A
   v0 (f1) half full on N1 (free for the controller)

v1's search ends in ring 0 (sn), v2's must go on to ring 1 (sx): two searches of different depth from one search cell in one
step, by vehicles with different access -- the situation in which anything the search remembers from one call to the next
(per cell, per index, per process) changes what the next call returns.  Used by C16 (every step executed twice from the
same saved state, every node rebuilt in another worker process) and C10.
"""
from __future__ import annotations

from nrel.hive.dispatcher.instruction_generator.charging_fleet_manager import ChargingFleetManager
from nrel.hive.dispatcher.instruction_generator.dispatcher import Dispatcher
from nrel.hive.model.request import RequestRateStructure
from nrel.hive.model.roadnetwork.haversine_roadnetwork import HaversineRoadNetwork

from .w_req import ReqWorld
from .worlds import World, build_sim, make_config, make_env, mk_station, mk_vehicle, sites


class SeekWorld(ReqWorld):
    name = "W-seek"

    def __init__(self, pairs: bool = True, name: str = "", swap: bool = False):
        World.__init__(self)
        self.pairs = pairs
        self.name = name or ("W-seek" + ("/swapped" if swap else ""))
        S = sites()
        self.S = S
        dconf = {
            "matching_range_km_threshold": 0.0,
            "charging_range_km_threshold": 1.0,
            "charging_range_km_soft_threshold": 6.0,
            "base_charging_range_km_threshold": 200.0,
            "max_search_radius_km": 20.0,
        }
        cfg = make_config(step=60, cancel=240, idle_timeout=100000, dispatcher=dconf)
        self.env = make_env(cfg, fleets=("f1", "f2"))
        env = self.env
        rn = HaversineRoadNetwork(sim_h3_resolution=15)
        self.rn = rn
        sn = mk_station(env, rn, "sn", S["N3"], {"DCFC": 1}, fleets=("f1",))
        sx = mk_station(env, rn, "sx", S["X2"], {"DCFC": 1})
        v0 = mk_vehicle(env, rn, "v0", S["N1"], "quiet", soc=0.5, fleets=("f1",))
        # v1's range (1.5 km) lies between threshold + distance to sx (1.0 + 0.37) and threshold + distance to sn (1.0 + 0.62): whether
        # the manager sends it charging at all depends on which station its search returns
        # (swap: the two roles under exchanged ids -- which of the two searches runs first follows the iteration order of the vehicle
        # collection, so both assignments are explored)
        a, b = ("v2", "v1") if swap else ("v1", "v2")
        v1 = mk_vehicle(env, rn, a, S["N2"], "small", energy=0.21, fleets=("f1",))
        v2 = mk_vehicle(env, rn, b, S["A"], "small", energy=0.12, fleets=("f2",))
        self.starts = {"init": build_sim(env, rn, vehicles=(v0, v1, v2), stations=(sn, sx))}
        self.request_specs = {"r0": {"origin": S["N1"], "destination": S["M1"], "fleet_id": "f1"}}
        self.rate_structure = RequestRateStructure(base_price=1.37, price_per_mile=0.73, minimum_price=0.5)
        self.builtin_generators = (Dispatcher(cfg.dispatcher), ChargingFleetManager(cfg.dispatcher))
        per_vehicle = [("Idle",), ("DispatchStation", "sx", "DCFC"), ("DispatchStation", "sn", "DCFC")]
        self.controller_menu = [("I", k[0], vid) + tuple(k[1:]) for vid in ("v0", "v1", "v2") for k in per_vehicle]

    @property
    def idle_clip(self) -> int:
        return 0


def make(**kw) -> SeekWorld:
    return SeekWorld(**kw)
