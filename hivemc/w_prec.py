"""
W-prec (C09 precedence): two scripted generators G1 (events "I") and G2 (events "J", generated later) plus the
vehicles' own drivers (autonomous: ReserveBase -> charge, idle time-out -> base, at SoC limit -> idle; one human
driver going off shift -> home).  One step may carry one instruction from each generator, for the same or for
different vehicles.
"""
from __future__ import annotations

from nrel.hive.model.roadnetwork.haversine_roadnetwork import HaversineRoadNetwork

from .worlds import Scripted, Scripted2, World, build_sim, make_config, make_env, mk_base, mk_instruction, mk_station, mk_vehicle, sites


class PrecWorld(World):
    name = "W-prec"
    pairs = True

    def __init__(self, **kw):
        super().__init__()
        S = sites()
        cfg = make_config(step=60, cancel=240, idle_timeout=120)

        def sched(sim, vehicle_id):  # on shift for the first three steps only
            from .worlds import T0

            return int(sim.sim_time) < T0 + 180

        self.env = make_env(cfg, schedules={"early": sched})
        env = self.env
        rn = HaversineRoadNetwork(sim_h3_resolution=15)
        self.rn = rn
        s0 = mk_station(env, rn, "s0", S["N1"], {"DCFC": 1})
        bs = mk_station(env, rn, "bs", S["X1"], {"LEVEL_2": 1})
        b0 = mk_base(rn, "b0", S["X1"], stalls=2, station_id="bs")
        hb = mk_base(rn, "hb", S["N2"], stalls=1, station_id=None)
        v0 = mk_vehicle(env, rn, "v0", S["A"], "quiet", soc=0.5)
        v1 = mk_vehicle(env, rn, "v1", S["N1"], "small", energy=0.5)  # reaches the SoC limit while charging
        v2 = mk_vehicle(env, rn, "v2", S["X1"], "quiet", soc=0.5)  # at the base: ReserveBase -> driver charges
        h0 = mk_vehicle(env, rn, "h0", S["N2"], "quiet", soc=0.5, schedule_id="early", home_base_id="hb")
        self.starts = {"init": build_sim(env, rn, vehicles=(v0, v1, v2, h0), stations=(s0, bs), bases=(b0, hb))}
        self.request_specs = {"r0": {"origin": S["N2"], "destination": S["M2"]}}
        link_m = rn.position_from_geoid(S["M2"]).link_id
        per_vehicle = [("Idle",), ("DispatchTrip", "r0"), ("DispatchStation", "s0", "DCFC"), ("ChargeStation", "s0", "DCFC"),
                       ("DispatchBase", "b0"), ("ReserveBase", "b0"), ("Reposition", link_m)]
        vids = ("v0", "v1", "v2", "h0")
        self.controller_menu = [(g, k[0], vid) + tuple(k[1:]) for g in ("I", "J") for vid in vids for k in per_vehicle]
        # events "L": G2 speaks a SECOND time in the same step (one generator returning several instructions, possibly for the same
        # vehicle, as the built-in Dispatcher does for a vehicle of two fleets): the instruction generated last wins
        self.controller_menu += [("L", k[0], vid) + tuple(k[1:]) for vid in vids for k in (("Idle",), ("DispatchBase", "b0"))]
        self.keep_tod = True
        self._t0 = int(self.starts["init"].sim_time)

    @staticmethod
    def slot(ev):
        return ("g1:" if ev[0] == "I" else "g2:" if ev[0] == "J" else "g2b:" if ev[0] == "L" else "e:") + ev[0] + (ev[2] if ev[0] in "IJL" else ev[1])

    def generators(self, instructions):
        return ()

    def pre_step(self, sim, events):
        """the state StepSimulation.update sees: arrivals admitted, expired requests cancelled"""
        import immutables
        from nrel.hive.state.simulation_state.update.cancel_requests import CancelRequests
        from nrel.hive.state.simulation_state.update.update_requests_from_file import update_requests_from_iterator

        env = self.env
        sim = sim._replace(applied_instructions=immutables.Map())
        now = int(sim.sim_time)
        arrivals = [e[1] for e in events if e[0] == "R"]
        if arrivals:
            sim = update_requests_from_iterator(iter([self.request_row(n, now) for n in arrivals]), sim, env, self.rate_structure)
        sim, _ = CancelRequests().update(sim, env)
        return sim

    def _advance(self, sim, events):
        from nrel.hive.state.simulation_state.update.step_simulation import StepSimulation

        sim = self.pre_step(sim, events)
        g1 = TripPlanner(tuple(mk_instruction(("I",) + e[1:]) for e in events if e[0] == "I"))
        g2 = ChargePlanner(tuple(mk_instruction(("I",) + e[1:]) for e in events if e[0] == "J") + tuple(mk_instruction(("I",) + e[1:]) for e in events if e[0] == "L"))
        if int(sim.sim_time) == self._t0:
            ctrl = StepSimulation.from_tuple((g1, g2))  # first step of a run: the controller as configured
        else:
            # later steps: the controller a runner carries forward -- what StepSimulation.update hands back at the end of
            # every step (update_instruction_generators over the generators in their order) -- with this step's scripts
            # put in through the public single-generator update
            ctrl = StepSimulation.from_tuple((TripPlanner(), ChargePlanner()))
            ctrl = ctrl.update_instruction_generators(ctrl.ordered_instruction_generators)
            ctrl = ctrl.update_instruction_generator(g1).unwrap().update_instruction_generator(g2).unwrap()
        sim, _ = ctrl.update(sim, self.env)
        return sim


class TripPlanner(Scripted):
    """G1, configured FIRST; its name sorts after G2's, so configured order and name order disagree"""


class ChargePlanner(Scripted):
    """G2, configured LAST: it has precedence over G1"""


def make(**kw):
    return PrecWorld(**kw)
