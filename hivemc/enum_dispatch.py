"""
C12 -- the built-in trip dispatcher returns a valid minimum-cost matching (per fleet).

Exhaustive enumeration of (i) placements of <= n vehicles and <= n requests on 7 cells (5 collinear + 2 off-line,
so ties abound) with everything eligible, and (ii) on fixed geometries, every combination of per-vehicle and
per-request eligibility attributes with and without fleets.  Driver: the real Dispatcher.generate_instructions.
Oracle: brute force over all injective maps.
"""
from __future__ import annotations

import itertools
from typing import Any, Dict, List, Optional, Tuple

import h3
import immutables

from . import seed, tier
from .enumrun import pmap, rotate
from .report import Check, Finding, log
from .worlds import build_sim, make_config, make_env, membership, mk_vehicle, sites

from nrel.hive.dispatcher.instruction_generator.dispatcher import Dispatcher
from nrel.hive.model.request import Request
from nrel.hive.model.roadnetwork.haversine_roadnetwork import HaversineRoadNetwork
from nrel.hive.model.sim_time import SimTime
from nrel.hive.state.driver_state.human_driver_state.human_driver_attributes import HumanDriverAttributes
from nrel.hive.state.driver_state.human_driver_state.human_driver_state import HumanUnavailable
from nrel.hive.state.simulation_state import simulation_state_ops
from nrel.hive.state.vehicle_state.out_of_service import OutOfService

RANGE_THRESHOLD_KM = 5.0

VEH_ATTRS = ("eligible", "out_of_service", "off_shift", "low_range", "other_fleet", "no_fleet", "both_fleets")
REQ_ATTRS = ("waiting", "has_vehicle", "other_fleet")
# with fleets declared, vehicles and requests WITHOUT any fleet are matched with each other in a pass of their own
# (kept by the repository's own suite); these attributes exercise that pass
PUBLIC_VEH_ATTRS = ("eligible", "no_fleet", "off_shift_no_fleet", "low_range_no_fleet", "out_of_service_no_fleet")
PUBLIC_REQ_ATTRS = ("waiting", "public", "public_has_vehicle")


def cells7() -> List[str]:
    S = sites()
    a = S["A"]
    line = h3.h3_line(a, h3.h3_to_center_child(h3.h3_to_parent(S["N1"], 13), 15))[:5]
    ring = sorted(h3.hex_ring(line[2], 1))
    off = [c for c in ring if c not in line][:2]
    out = list(line) + off
    assert len(set(out)) == 7
    return out


REQUEST_VALUES = (12000.0, 350.0, 47000.0, 5.0, 900.0)


class Ctx:
    def __init__(self, fleets: Tuple[str, ...], valid_states: Tuple[str, ...] = ("idle", "repositioning"), base_threshold_km: Optional[float] = None, extra: Optional[dict] = None):
        self.valid_states = tuple(valid_states)
        self.base_threshold_km = base_threshold_km
        dconf = {"matching_range_km_threshold": RANGE_THRESHOLD_KM, "valid_dispatch_states": list(valid_states)}
        if base_threshold_km is not None:
            dconf["base_charging_range_km_threshold"] = base_threshold_km
        dconf.update(extra or {})
        self.cfg = make_config(dispatcher=dconf)
        self.env = make_env(self.cfg, fleets=fleets)
        self.rn = HaversineRoadNetwork(sim_h3_resolution=15)
        self.base_sim = build_sim(self.env, self.rn)
        self.dispatcher = Dispatcher(self.cfg.dispatcher)
        self.fleets = fleets
        self._veh: Dict[tuple, Any] = {}
        self._req: Dict[tuple, Any] = {}

    def vehicle(self, i: int, cell: str, attr: str):
        k = (i, cell, attr)
        v = self._veh.get(k)
        if v is None:
            fl = {"eligible": ("f1",), "other_fleet": ("f2",), "no_fleet": (), "both_fleets": ("f1", "f2")}.get(attr, ("f1",))
            if attr.endswith("_no_fleet"):
                fl = ()
                attr = attr[: -len("_no_fleet")]
            if not self.fleets:
                fl = ()
            v = mk_vehicle(self.env, self.rn, f"v{i}", cell, "quiet", soc=0.5, fleets=fl)
            if attr == "low_range":
                v = mk_vehicle(self.env, self.rn, f"v{i}", cell, "quiet", energy=0.3, fleets=fl)  # ~2 km of range
            elif attr == "out_of_service":
                v = v.modify_vehicle_state(OutOfService.build(v.id))
            elif attr == "off_shift":
                v = v.modify_driver_state(HumanUnavailable(HumanDriverAttributes(v.id, "sched", "b0", False)))
            elif attr.startswith("charging_base:"):
                # plugged in at a base with this many kWh on board (ChargingBase is dispatchable in this configuration)
                from nrel.hive.state.vehicle_state.charging_base import ChargingBase

                v = mk_vehicle(self.env, self.rn, f"v{i}", cell, "quiet", energy=float(attr.split(":")[1]), fleets=fl)
                v = v.modify_vehicle_state(ChargingBase.build(v.id, "b0", "LEVEL_2"))
            elif attr == "en_route_own":
                # travelling to the request with the same index (which records this vehicle)
                from nrel.hive.state.vehicle_state.dispatch_trip import DispatchTrip

                far = sites()["F1"]
                route = self.rn.route(v.position, self.rn.position_from_geoid(far))
                v = v.modify_vehicle_state(DispatchTrip.build(v.id, f"r{i}", route))
            self._veh[k] = v
        return v

    def request(self, j: int, cell: str, attr: str):
        k = (j, cell, attr)
        r = self._req.get(k)
        if r is None:
            fleet = None
            if self.fleets and not attr.startswith("public"):
                fleet = "f2" if attr == "other_fleet" else "f1"
            # fares differ widely (a price list in a small currency unit): the matching is by grid distance whatever the fares
            r = Request.build(f"r{j}", cell, sites()["M2"], self.rn, SimTime.build(0), 1, False, fleet_id=fleet, value=REQUEST_VALUES[j % len(REQUEST_VALUES)])
            if attr in ("has_vehicle", "public_has_vehicle"):
                r = r.assign_dispatched_vehicle("vx", SimTime.build(0))
            elif attr.startswith("assigned:"):
                r = r.assign_dispatched_vehicle(attr.split(":")[1], SimTime.build(0))
            self._req[k] = r
        return r

    def sim(self, vehicles, requests):
        s = self.base_sim
        for v in vehicles:
            s = simulation_state_ops.add_vehicle_safe(s, v).unwrap()
        for r in requests:
            s = simulation_state_ops.add_request_safe(s, r).unwrap()
        return s


def vehicle_reason(ctx: Ctx, v, fleet: Optional[str]) -> Optional[str]:
    """None if eligible for this fleet's pass by the statement's four conditions, else the reason"""
    n = v.vehicle_state.__class__.__name__
    if n.lower() not in ctx.valid_states:
        return "activity not dispatchable"
    if not v.driver_state.available:
        return "driver off shift"
    m = ctx.env.mechatronics[v.mechatronics_id]
    if not m.range_remaining_km(v) > RANGE_THRESHOLD_KM:
        return "range below threshold"
    if n == "ChargingBase" and ctx.base_threshold_km is not None and m.range_remaining_km(v) < ctx.base_threshold_km:
        return "range below the threshold for leaving a base"
    if fleet == "<public>":
        if v.membership.memberships:
            return "belongs to a fleet"
    elif fleet is not None and fleet not in v.membership.memberships:
        return "no fleet" if not v.membership.memberships else "other fleet"
    return None


def request_reason(r, fleet: Optional[str]) -> Optional[str]:
    if r.dispatched_vehicle is not None:
        return "already has a vehicle"
    if fleet == "<public>":
        if r.membership.memberships:
            return "belongs to a fleet"
    elif fleet is not None and r.membership.memberships and fleet not in r.membership.memberships:
        return "other fleet"
    return None


def brute_min(vs, rs) -> float:
    k = min(len(vs), len(rs))
    if k == 0:
        return 0.0
    best = float("inf")
    if len(vs) <= len(rs):
        for perm in itertools.permutations(range(len(rs)), k):
            c = sum(h3.h3_distance(vs[i].geoid, rs[perm[i]].geoid) for i in range(k))
            best = min(best, c)
    else:
        for perm in itertools.permutations(range(len(vs)), k):
            c = sum(h3.h3_distance(vs[perm[j]].geoid, rs[j].geoid) for j in range(k))
            best = min(best, c)
    return best


def judge(ctx: Ctx, sim) -> List[Tuple[tuple, str]]:
    out = []
    fleets = sorted(ctx.fleets) or [None]
    _, all_instr = ctx.dispatcher.generate_instructions(sim, ctx.env)
    per_fleet = {}
    for f in fleets:
        env_f = ctx.env._replace(fleet_ids=frozenset([f]) if f is not None else frozenset())
        _, instr = ctx.dispatcher.generate_instructions(sim, env_f)
        per_fleet[f] = [(i.vehicle_id, i.request_id) for i in instr]
    concat = sorted(p for f in fleets for p in per_fleet[f])
    public_requests = [r for r in sim.get_requests() if not r.membership.memberships]
    if ctx.fleets and public_requests:
        # the pass of the fleet-less: validity of every pair against SOME pass (sizes are not decidable from outside here)
        passes = list(fleets) + ["<public>"]
        for i in all_instr:
            v, r = sim.vehicles.get(i.vehicle_id), sim.requests.get(i.request_id)
            if v is None or r is None:
                out.append((("unknown_entity",), f"pair ({i.vehicle_id}, {i.request_id}) names a missing entity"))
                continue
            if not any(vehicle_reason(ctx, v, p) is None and request_reason(r, p) is None for p in passes):
                own = "<public>" if not v.membership.memberships else sorted(v.membership.memberships)[0]
                why_v, why_r = vehicle_reason(ctx, v, own), request_reason(r, own)
                if why_v:
                    out.append((("ineligible_vehicle", why_v, "public_pass"), f"vehicle {v.id} ({why_v}) paired with request {r.id}"))
                else:
                    out.append((("ineligible_request", str(why_r), "public_pass"), f"request {r.id} ({why_r}) paired with vehicle {v.id}"))
        pub_v = [v for v in sim.get_vehicles() if vehicle_reason(ctx, v, "<public>") is None]
        pub_r = [r for r in sim.get_requests() if request_reason(r, "<public>") is None]
        npub = len([i for i in all_instr if not sim.vehicles[i.vehicle_id].membership.memberships]) if all(i.vehicle_id in sim.vehicles for i in all_instr) else 0
        if npub != min(len(pub_v), len(pub_r)):
            out.append((("size", "public_pass"), f"{npub} pairs for {len(pub_v)} eligible fleet-less vehicles and {len(pub_r)} eligible public requests"))
        return out
    if sorted((i.vehicle_id, i.request_id) for i in all_instr) != concat:
        out.append((("not_per_fleet",), f"instructions for all fleets {sorted((i.vehicle_id, i.request_id) for i in all_instr)} are not the union of the per-fleet results {concat}"))
    for f in fleets:
        pairs = per_fleet[f]
        V = [v for v in sim.get_vehicles() if vehicle_reason(ctx, v, f) is None]
        R = [r for r in sim.get_requests() if request_reason(r, f) is None]
        ok = True
        for vid, rid in pairs:
            v, r = sim.vehicles.get(vid), sim.requests.get(rid)
            if v is None or r is None:
                out.append((("unknown_entity",), f"fleet {f}: pair ({vid}, {rid}) names a missing entity"))
                ok = False
                continue
            why = vehicle_reason(ctx, v, f)
            if why:
                out.append((("ineligible_vehicle", why), f"fleet {f}: vehicle {vid} ({why}) paired with request {rid}"))
                ok = False
            why = request_reason(r, f)
            if why:
                out.append((("ineligible_request", why), f"fleet {f}: request {rid} ({why}) paired with vehicle {vid}"))
                ok = False
        if len({p[0] for p in pairs}) != len(pairs) or len({p[1] for p in pairs}) != len(pairs):
            out.append((("not_one_to_one",), f"fleet {f}: pairs {pairs} reuse a vehicle or a request"))
            ok = False
        if not ok:
            continue
        if len(pairs) != min(len(V), len(R)):
            out.append((("size", "too_few" if len(pairs) < min(len(V), len(R)) else "too_many"), f"fleet {f}: {len(pairs)} pairs for {len(V)} eligible vehicles and {len(R)} eligible requests"))
            continue
        cost = sum(h3.h3_distance(sim.vehicles[a].geoid, sim.requests[b].geoid) for a, b in pairs)
        best = brute_min(V, R)
        if cost > best:
            out.append((("not_minimal",), f"fleet {f}: total grid distance {cost}, the minimum over all pairings of that size is {best} (pairs {pairs})"))
    return out


def _geom_shard(shard) -> Dict[str, Any]:
    nv, nr, part, nparts, multiset = shard[:5]
    # a second pass under a configuration whose station-search radius is smaller than one cell: the trip matching knows no radius
    tiny = len(shard) > 5 and shard[5] == "tiny_search_radius"
    ctx = Ctx((), extra={"max_search_radius_km": 0.0004} if tiny else None)
    cells = cells7()
    out = {"cases": 0, "nontrivial": 0, "findings": {}, "samples": []}
    vgen = itertools.combinations_with_replacement(range(7), nv) if multiset else itertools.product(range(7), repeat=nv)
    rplaces = list(itertools.combinations_with_replacement(range(7), nr) if multiset else itertools.product(range(7), repeat=nr))
    i = 0
    for vp in vgen:
        i += 1
        if i % nparts != part:
            continue
        vehicles = [ctx.vehicle(k, cells[c], "eligible") for k, c in enumerate(vp)]
        sim_v = ctx.sim(vehicles, [])
        for rp in rplaces:
            sim = sim_v
            for k, c in enumerate(rp):
                sim = simulation_state_ops.add_request_safe(sim, ctx.request(k, cells[c], "waiting")).unwrap()
            out["cases"] += 1
            if nv and nr:
                out["nontrivial"] += 1
            for sig, msg in judge(ctx, sim):
                out["findings"].setdefault(sig + (("tiny_search_radius",) if tiny else ()), (msg, {"kind": "geometry", "vehicles": list(vp), "requests": list(rp), "tiny_search_radius": tiny}))
            if len(out["samples"]) < 1 and nv >= 2 and nr >= 2:
                out["samples"].append({"vehicle_cells": list(vp), "request_cells": list(rp)})
    out["findings"] = [(list(k), m, rp) for k, (m, rp) in out["findings"].items()]
    return out


GEOMS = [
    ((0, 1, 2), (0, 1, 2)),
    ((0, 0, 0), (1, 2, 3)),
    ((0, 2, 4), (1, 3, 5)),
    ((6, 5, 0), (4, 4, 1)),
    ((1, 1, 3), (2, 2, 2)),
    ((4, 0, 5), (6, 2, 0)),
]


def _elig_shard(shard) -> Dict[str, Any]:
    gi, fleets, va0 = shard
    ctx = Ctx(tuple(fleets))
    cells = cells7()
    vcells, rcells = GEOMS[gi]
    out = {"cases": 0, "nontrivial": 0, "findings": {}, "samples": []}
    for va in itertools.product(VEH_ATTRS, repeat=2):
        va = (va0,) + va
        vehicles = [ctx.vehicle(k, cells[vcells[k]], va[k]) for k in range(3)]
        sim_v = ctx.sim(vehicles, [])
        for ra in itertools.product(REQ_ATTRS, repeat=3):
            sim = sim_v
            for k in range(3):
                sim = simulation_state_ops.add_request_safe(sim, ctx.request(k, cells[rcells[k]], ra[k])).unwrap()
            out["cases"] += 1
            if any(a != "eligible" for a in va) or any(a != "waiting" for a in ra):
                out["nontrivial"] += 1
            for sig, msg in judge(ctx, sim):
                out["findings"].setdefault(sig, (msg, {"kind": "eligibility", "geometry": gi, "fleets": list(fleets), "vehicle_attrs": list(va), "request_attrs": list(ra)}))
            if len(out["samples"]) < 1 and va[1] != "eligible" and ra[0] != "waiting":
                out["samples"].append({"geometry": gi, "fleets": list(fleets), "vehicle_attrs": list(va), "request_attrs": list(ra)})
    out["findings"] = [(list(k), m, rp) for k, (m, rp) in out["findings"].items()]
    return out


def _chargingbase_shard(shard) -> Dict[str, Any]:
    """configuration in which vehicles plugged in at a base are dispatchable and the threshold for leaving a base lies BELOW (and,
    second pass, above) the matching threshold: every combination of (eligible, plugged in with range below both / between /
    above both thresholds) x (waiting, has a vehicle)"""
    gi, base_thr = shard
    ctx = Ctx((), valid_states=("idle", "repositioning", "chargingbase"), base_threshold_km=base_thr)
    cells = cells7()
    vcells, rcells = GEOMS[gi]
    out = {"cases": 0, "nontrivial": 0, "findings": {}, "samples": []}
    m = ctx.env.mechatronics["quiet"]
    per_km = 25.0 / m.range_remaining_km(mk_vehicle(ctx.env, ctx.rn, "x", cells[0], "quiet", energy=25.0))
    lo, hi = sorted((RANGE_THRESHOLD_KM, base_thr))
    levels = [round(per_km * km, 4) for km in (0.5 * lo, 0.5 * (lo + hi), 1.5 * hi)]
    attrs = ("eligible",) + tuple(f"charging_base:{e}" for e in levels)
    for va in itertools.product(attrs, repeat=3):
        vehicles = [ctx.vehicle(k, cells[vcells[k]], va[k]) for k in range(3)]
        sim_v = ctx.sim(vehicles, [])
        for ra in itertools.product(("waiting", "has_vehicle"), repeat=3):
            sim = sim_v
            for k in range(3):
                sim = simulation_state_ops.add_request_safe(sim, ctx.request(k, cells[rcells[k]], ra[k])).unwrap()
            out["cases"] += 1
            if any(a != "eligible" for a in va):
                out["nontrivial"] += 1
            for sig, msg in judge(ctx, sim):
                out["findings"].setdefault(sig + ("chargingbase_dispatchable",), (msg, {"kind": "chargingbase", "geometry": gi, "base_threshold_km": base_thr, "vehicle_attrs": list(va), "request_attrs": list(ra)}))
    out["findings"] = [(list(k), m2, rp) for k, (m2, rp) in out["findings"].items()]
    return out


def _rematch_shard(shard) -> Dict[str, Any]:
    """configuration in which vehicles already travelling to a request may be matched again
    (valid_dispatch_states incl. DispatchTrip): an en-route vehicle is eligible, its own request is not"""
    gi = shard
    ctx = Ctx((), valid_states=("idle", "repositioning", "dispatchtrip"))
    cells = cells7()
    vcells, rcells = GEOMS[gi]
    out = {"cases": 0, "nontrivial": 0, "findings": {}, "samples": []}
    for va in itertools.product(("eligible", "en_route_own", "out_of_service"), repeat=3):
        vehicles = [ctx.vehicle(k, cells[vcells[k]], va[k]) for k in range(3)]
        sim_v = ctx.sim(vehicles, [])
        for ra in itertools.product(("waiting", "has_vehicle"), repeat=3):
            ra = tuple(f"assigned:v{k}" if va[k] == "en_route_own" else ra[k] for k in range(3))
            sim = sim_v
            for k in range(3):
                sim = simulation_state_ops.add_request_safe(sim, ctx.request(k, cells[rcells[k]], ra[k])).unwrap()
            out["cases"] += 1
            if "en_route_own" in va:
                out["nontrivial"] += 1
            for sig, msg in judge(ctx, sim):
                out["findings"].setdefault(sig + ("rematch_config",), (msg, {"kind": "rematch", "geometry": gi, "vehicle_attrs": list(va), "request_attrs": list(ra)}))
            if len(out["samples"]) < 1 and va.count("en_route_own") == 1:
                out["samples"].append({"config": "valid_dispatch_states incl. dispatchtrip", "geometry": gi, "vehicle_attrs": list(va), "request_attrs": list(ra)})
    out["findings"] = [(list(k), m, rp) for k, (m, rp) in out["findings"].items()]
    return out


def _crowd_shard(shard) -> Dict[str, Any]:
    """a fleet far larger than the requests: `crowd` eligible vehicles standing on ONE cell (ids sorting before and after the
    foreground ids) plus two foreground vehicles on every pair of cells, against every placement of 1-2 requests and every
    multiset placement of 3.  The crowd stands on one cell, so the minimum over all pairings is the minimum over the
    foreground vehicles plus as many crowd members as there are requests -- still brute force."""
    crowd, part, nparts = shard
    ctx = Ctx(())
    cells = cells7()
    crowd_cell = cells[6]
    out = {"cases": 0, "nontrivial": 0, "findings": {}, "samples": []}
    # half of the crowd sorts before the foreground ids "v0", "v1" ("c..."), the other half after ("w...")
    members = [mk_vehicle(ctx.env, ctx.rn, f"{'c' if k % 2 == 0 else 'w'}{k:04d}", crowd_cell, "quiet", soc=0.5, fleets=()) for k in range(crowd)]
    sim_c = ctx.sim(members, [])
    i = 0
    for vp in itertools.product(range(7), repeat=2):
        i += 1
        if i % nparts != part:
            continue
        fg = [ctx.vehicle(k, cells[c], "eligible") for k, c in enumerate(vp)]
        sim_v = sim_c
        for v in fg:
            sim_v = simulation_state_ops.add_vehicle_safe(sim_v, v).unwrap()
        rplaces = [rp for nr in (1, 2) for rp in itertools.product(range(7), repeat=nr)] + list(itertools.combinations_with_replacement(range(7), 3))
        for rp in rplaces:
            sim = sim_v
            for k, c in enumerate(rp):
                sim = simulation_state_ops.add_request_safe(sim, ctx.request(k, cells[c], "waiting")).unwrap()
            out["cases"] += 1
            out["nontrivial"] += 1
            _, instr = ctx.dispatcher.generate_instructions(sim, ctx.env)
            pairs = [(x.vehicle_id, x.request_id) for x in instr]
            bad = []
            if any(a not in sim.vehicles or b not in sim.requests for a, b in pairs):
                bad.append((("unknown_entity", "crowd"), f"pairs {pairs} name a missing entity"))
            elif len({a for a, _ in pairs}) != len(pairs) or len({b for _, b in pairs}) != len(pairs):
                bad.append((("not_one_to_one", "crowd"), f"{crowd + 2} eligible vehicles, {len(rp)} requests: pairs {pairs} reuse a vehicle or a request"))
            elif len(pairs) != len(rp):
                bad.append((("size", "too_few" if len(pairs) < len(rp) else "too_many", "crowd"), f"{len(pairs)} pairs for {crowd + 2} eligible vehicles and {len(rp)} eligible requests"))
            else:
                cost = sum(h3.h3_distance(sim.vehicles[a].geoid, sim.requests[b].geoid) for a, b in pairs)
                best = brute_min(fg + members[: len(rp)], [sim.requests[f"r{k}"] for k in range(len(rp))])
                if cost > best:
                    bad.append((("not_minimal", "crowd"), f"total grid distance {cost}, the minimum over all pairings of that size is {best} (pairs {pairs})"))
            for sig, msg in bad:
                out["findings"].setdefault(sig, (msg, {"kind": "crowd", "crowd": crowd, "vehicles": list(vp), "requests": list(rp)}))
            if len(out["samples"]) < 1 and len(rp) == 2:
                out["samples"].append({"crowd_of": crowd, "crowd_cell": 6, "foreground_vehicle_cells": list(vp), "request_cells": list(rp)})
    out["findings"] = [(list(k), m, rp) for k, (m, rp) in out["findings"].items()]
    return out


def _public_shard(shard) -> Dict[str, Any]:
    gi = shard
    ctx = Ctx(("f1", "f2"))
    cells = cells7()
    vcells, rcells = GEOMS[gi]
    out = {"cases": 0, "nontrivial": 0, "findings": {}, "samples": []}
    for va in itertools.product(PUBLIC_VEH_ATTRS, repeat=3):
        vehicles = [ctx.vehicle(k, cells[vcells[k]], va[k]) for k in range(3)]
        sim_v = ctx.sim(vehicles, [])
        for ra in itertools.product(PUBLIC_REQ_ATTRS, repeat=3):
            sim = sim_v
            for k in range(3):
                sim = simulation_state_ops.add_request_safe(sim, ctx.request(k, cells[rcells[k]], ra[k])).unwrap()
            out["cases"] += 1
            if any(a.startswith("public") for a in ra) and any(a.endswith("no_fleet") for a in va):
                out["nontrivial"] += 1
            for sig, msg in judge(ctx, sim):
                out["findings"].setdefault(sig, (msg, {"kind": "public", "geometry": gi, "vehicle_attrs": list(va), "request_attrs": list(ra)}))
            if len(out["samples"]) < 1 and "off_shift_no_fleet" in va and "public" in ra:
                out["samples"].append({"fleets": ["f1", "f2"], "geometry": gi, "vehicle_attrs": list(va), "request_attrs": list(ra)})
    out["findings"] = [(list(k), m, rp) for k, (m, rp) in out["findings"].items()]
    return out


def c12() -> int:
    c = Check("C12", "bounded exhaustive enumeration of dispatcher inputs against a brute-force matcher")
    quick = tier() == "quick"
    shards = []
    n = 3
    for nv in range(0, n + 1):
        for nr in range(0, n + 1):
            parts = 16 if nv + nr >= 5 else (4 if nv + nr >= 4 else 1)
            shards += [(nv, nr, p, parts, False) for p in range(parts)]
    if not quick:
        for nv, nr in ((4, 1), (1, 4), (4, 2), (2, 4), (4, 3), (3, 4), (4, 4)):
            shards += [(nv, nr, p, 16, True) for p in range(16)]
        for nv, nr in ((5, 1), (1, 5), (5, 2), (2, 5), (5, 3), (3, 5)):
            shards += [(nv, nr, p, 32, True) for p in range(32)]
    shards += [(nv, nr, 0, 1, False, "tiny_search_radius") for nv in (1, 2) for nr in (1, 2)] + [(3, 2, p, 4, True, "tiny_search_radius") for p in range(4)]
    gres = pmap(_geom_shard, rotate(shards, seed()))
    eshards = [(gi, fl, va0) for gi in range(len(GEOMS)) for fl in ((), ("f1", "f2"), ("f1",)) for va0 in VEH_ATTRS]
    eres = pmap(_elig_shard, rotate(eshards, seed()))
    eres += pmap(_rematch_shard, list(range(len(GEOMS))))
    eres += pmap(_public_shard, list(range(len(GEOMS))))
    eres += pmap(_chargingbase_shard, [(gi, thr) for gi in range(len(GEOMS)) for thr in (RANGE_THRESHOLD_KM / 4.0, RANGE_THRESHOLD_KM * 3.0)])
    crowds = (300,) if quick else (40, 257, 300, 520)
    cres = pmap(_crowd_shard, rotate([(n, p, 8) for n in crowds for p in range(8)], seed()))
    eres += cres
    cases = sum(r["cases"] for r in gres + eres)
    nontrivial = sum(r["nontrivial"] for r in gres + eres)
    for r in gres + eres:
        for sig, msg, rp in r["findings"]:
            c.add(Finding("C12", sig, msg, dict(rp, engine="enum_dispatch")))
    c.coverage.update(
        {
            "states": cases,
            "transitions": cases,
            "traces_validated_against_impl": cases,
            "evaluations": cases,
            "distinct_nontrivial": nontrivial,
            "rule": "(i) every placement of nv vehicles and nr requests on 7 cells for all (nv, nr) in {0..3}^2"
            + ("" if quick else " plus every multiset placement for (4,1..4),(1..3,4),(5,1..3),(1..3,5)")
            + ", all eligible, no fleets; (iii) on the same geometries, under a configuration whose valid_dispatch_states include DispatchTrip, every combination of (eligible, en route to its own request, out of service) x (waiting, has a vehicle); (ii) on 6 fixed 3x3 geometries every combination of 7 vehicle attributes (eligible, out of service, off shift, low range, other fleet, no fleet, both fleets) and 3 request attributes (waiting, has a vehicle, other fleet), without fleets, with fleets {f1,f2} and with the single declared fleet {f1}; the placements of <= 2 x <= 2 and the multiset placements of 3 x 2 once more under a station-search radius smaller than a cell (max_search_radius_km 0.4 m); (iv) a crowd of N eligible vehicles on one cell (N = " + "/".join(map(str, crowds)) + ") plus two foreground vehicles on every pair of the 7 cells x every placement of 1-2 requests and every multiset placement of 3; non-trivial = both sides non-empty / some attribute not the default",
            "geometry_cases": sum(r["cases"] for r in gres),
            "eligibility_cases": sum(r["cases"] for r in eres) - sum(r["cases"] for r in cres),
            "crowd_cases": sum(r["cases"] for r in cres),
            "crowd_sizes": list(crowds),
            "samples": [s for r in gres for s in r["samples"]][:2] + [s for r in eres for s in r["samples"]][:2],
        }
    )
    c.exhaustive = True
    c.assumptions += [
        "cost = h3 grid distance between vehicle cell and request origin (the statement's metric)",
        "the combination 'fleet-less vehicle and fleet-less request while fleets exist' is outside the alphabet: input files cannot produce it (requests must name a fleet then) and tests/test_local_simulation_runner.py pins it",
    ]
    log(f"  C12: {sum(r['cases'] for r in gres)} placements, {sum(r['cases'] for r in eres)} eligibility cases")
    return c.finish()


def _crowd_replay(rp) -> bool:
    """re-runs the crowd shard cases up to and including the recorded one (same process history) and reports whether it fails"""
    res = _crowd_shard((rp["crowd"], 0, 1))
    for sig, msg, r in res["findings"]:
        print(" | ".join(sig), "::", msg, r)
    return bool(res["findings"])


def replay(body) -> int:
    rp = body["replay"]
    cells = cells7()
    if rp["kind"] == "public":
        ctx = Ctx(("f1", "f2"))
        vc, rc = GEOMS[rp["geometry"]]
        vs = [ctx.vehicle(k, cells[vc[k]], rp["vehicle_attrs"][k]) for k in range(3)]
        rs = [ctx.request(k, cells[rc[k]], rp["request_attrs"][k]) for k in range(3)]
    elif rp["kind"] == "rematch":
        ctx = Ctx((), valid_states=("idle", "repositioning", "dispatchtrip"))
        vc, rc = GEOMS[rp["geometry"]]
        vs = [ctx.vehicle(k, cells[vc[k]], rp["vehicle_attrs"][k]) for k in range(3)]
        rs = [ctx.request(k, cells[rc[k]], rp["request_attrs"][k]) for k in range(3)]
    elif rp["kind"] == "chargingbase":
        ctx = Ctx((), valid_states=("idle", "repositioning", "chargingbase"), base_threshold_km=rp["base_threshold_km"])
        vc, rc = GEOMS[rp["geometry"]]
        vs = [ctx.vehicle(k, cells[vc[k]], rp["vehicle_attrs"][k]) for k in range(3)]
        rs = [ctx.request(k, cells[rc[k]], rp["request_attrs"][k]) for k in range(3)]
    elif rp["kind"] == "crowd":
        r = _crowd_replay(rp)
        if r:
            print(f"VIOLATION property=C12 replay={body.get('_path')}")
            return 1
        print("not reproduced on this tree")
        return 0
    elif rp["kind"] == "geometry":
        ctx = Ctx((), extra={"max_search_radius_km": 0.0004} if rp.get("tiny_search_radius") else None)
        vs = [ctx.vehicle(k, cells[c], "eligible") for k, c in enumerate(rp["vehicles"])]
        rs = [ctx.request(k, cells[c], "waiting") for k, c in enumerate(rp["requests"])]
    else:
        ctx = Ctx(tuple(rp["fleets"]))
        vc, rc = GEOMS[rp["geometry"]]
        vs = [ctx.vehicle(k, cells[vc[k]], rp["vehicle_attrs"][k]) for k in range(3)]
        rs = [ctx.request(k, cells[rc[k]], rp["request_attrs"][k]) for k in range(3)]
    sim = ctx.sim(vs, rs)
    _, instr = ctx.dispatcher.generate_instructions(sim, ctx.env)
    print("vehicles:", [(v.id, cells.index(v.geoid), sorted(v.membership.memberships), v.vehicle_state.__class__.__name__) for v in vs])
    print("requests:", [(r.id, cells.index(r.geoid), sorted(r.membership.memberships), r.dispatched_vehicle) for r in rs])
    print("dispatcher:", [(i.vehicle_id, i.request_id) for i in instr])
    bad = judge(ctx, sim)
    for sig, msg in bad:
        print(" | ".join(sig), "::", msg)
    if bad:
        print(f"VIOLATION property=C12 replay={body.get('_path')}")
        return 1
    print("not reproduced on this tree")
    return 0
