"""
Canonical renderings of hive values.

* ``canon(obj)``         : full structural rendering (sorted maps/sets), only per-run random tags (UUIDs) removed.
                           Used to compare states for equality across runs / processes (C01, C15, C16).
* ``state_key(sim, ...)``: the FSX abstraction of DESIGN.md 2.3 -- drops write-only accumulators, makes times
                           relative, clips idle_duration, ranks enqueue times; plus the index maps when (and only
                           when) they disagree with the entities.
* ``deep_fingerprint``   : walks *everything* including mutable containers and objects with __dict__ (C16).
"""
from __future__ import annotations

import dataclasses
import enum
import hashlib
import uuid
from typing import Any

import h3
import immutables

FLOAT_DIGITS = 10


def _r(x: float):
    if x != x:
        return "nan"
    if x in (float("inf"), float("-inf")):
        return repr(x)
    return round(x, FLOAT_DIGITS) + 0.0  # +0.0 turns -0.0 into 0.0


_FIELDS_CACHE: dict = {}


def _fields(obj):
    cls = obj.__class__
    f = _FIELDS_CACHE.get(cls)
    if f is None:
        if dataclasses.is_dataclass(obj):
            f = tuple(x.name for x in dataclasses.fields(obj))
        elif isinstance(obj, tuple) and hasattr(obj, "_fields"):
            f = tuple(obj._fields)
        else:
            f = ()
        _FIELDS_CACHE[cls] = f
    return f


def _sortkey(x):
    return repr(x)


def canon(obj: Any, drop=None, xform=None, memo=None) -> Any:
    """
    structural canonical form. ``drop`` is a set of (class name, field) pairs (or ("*", field));
    ``xform`` maps (class name, field) to a function (value, owner) -> canonical value.
    """
    drop = drop or ()
    xform = xform or {}

    def go(o):
        if o is None or isinstance(o, (bool, str)):
            return o
        if isinstance(o, enum.Enum):
            return o.__class__.__name__ + "." + o.name
        if isinstance(o, int):
            return int(o)
        if isinstance(o, float):
            return _r(o)
        if isinstance(o, uuid.UUID):
            return "<uuid>"
        names = _fields(o)
        if names:
            if memo is not None:
                hit = memo.get(id(o))
                if hit is not None and hit[0] is o:
                    return hit[1]
            cn = o.__class__.__name__
            out = [cn]
            for n in names:
                if (cn, n) in drop or ("*", n) in drop:
                    continue
                v = getattr(o, n)
                fn = xform.get((cn, n))
                out.append((n, fn(v, o) if fn else go(v)))
            res = tuple(out)
            if memo is not None:
                memo[id(o)] = (o, res)
            return res
        if isinstance(o, immutables.Map) or isinstance(o, dict):
            if memo is not None and isinstance(o, immutables.Map):
                hit = memo.get(id(o))
                if hit is not None and hit[0] is o:
                    return hit[1]
            res = ("map",) + tuple(sorted(((go(k), go(v)) for k, v in o.items()), key=_sortkey))
            if memo is not None and isinstance(o, immutables.Map):
                memo[id(o)] = (o, res)
            return res
        if isinstance(o, (frozenset, set)):
            return ("set",) + tuple(sorted((go(x) for x in o), key=_sortkey))
        if isinstance(o, (tuple, list)):
            return tuple(go(x) for x in o)
        try:
            import numpy as np

            if isinstance(o, np.generic):
                return go(o.item())
            if isinstance(o, np.ndarray):
                return ("nd",) + tuple(go(x) for x in o.tolist())
        except ImportError:  # pragma: no cover
            pass
        # opaque object (road network, ...): identified by class only
        return "<" + o.__class__.__name__ + ">"

    return go(obj)


# ---------------------------------------------------------------------------------------------------
# full canonical form of a SimulationState (no abstraction besides uuids)

FULL_DROP = frozenset({("*", "instance_id")})


def canon_sim_full(sim) -> Any:
    return canon(sim, drop=FULL_DROP)


def digest(x: Any) -> str:
    return hashlib.blake2b(repr(x).encode(), digest_size=12).hexdigest()


# ---------------------------------------------------------------------------------------------------
# FSX abstraction

# fields written but never read by transition code (DESIGN.md 1.4; re-checked by audit.py)
WRITE_ONLY = frozenset(
    {
        ("Vehicle", "balance"),
        ("Vehicle", "distance_traveled_km"),
        ("Vehicle", "energy_gained"),
        ("Vehicle", "energy_expended"),
        ("Station", "balance"),
        ("Station", "energy_dispensed"),
        ("Request", "dispatched_vehicle_time"),
        ("ServicingTrip", "departure_time"),
        ("*", "instance_id"),
        ("SimulationState", "applied_instructions"),
        ("SimulationState", "road_network"),
        ("SimulationState", "sim_time"),
        ("SimulationState", "v_locations"),
        ("SimulationState", "r_locations"),
        ("SimulationState", "s_locations"),
        ("SimulationState", "b_locations"),
        ("SimulationState", "v_search"),
        ("SimulationState", "r_search"),
        ("SimulationState", "s_search"),
        ("SimulationState", "b_search"),
        ("Passenger", "departure_time"),
    }
)


_PARENT: dict = {}


def _apply_audit():
    """put a dropped field back into the key when the static audit finds a new read of it (abstraction no longer sound)"""
    global WRITE_ONLY, AUDIT_KEPT
    import os

    if os.environ.get("VERIF_NO_AUDIT"):
        return
    try:
        from .audit import fields_to_keep

        keep = fields_to_keep()
    except Exception as e:  # the audit must never break a check
        keep = set()
        AUDIT_KEPT = [f"audit failed: {e}"]
        return
    structural = {"instance_id", "applied_instructions"}
    keep = {k for k in keep if k not in structural}
    if keep:
        WRITE_ONLY = frozenset((c, f) for (c, f) in WRITE_ONLY if f not in keep)
        AUDIT_KEPT = sorted(keep)


AUDIT_KEPT: list = []
_apply_audit()


def expected_indexes(sim):
    """the eight index maps as they must be, computed from the entity maps"""
    res = sim.sim_h3_search_resolution
    out = {}
    for name, coll in (("v", sim.vehicles), ("r", sim.requests), ("s", sim.stations), ("b", sim.bases)):
        loc: dict = {}
        sea: dict = {}
        for eid, e in coll.items():
            g = e.geoid
            loc.setdefault(g, set()).add(eid)
            pk = (g, res)
            par = _PARENT.get(pk)
            if par is None:
                par = _PARENT[pk] = h3.h3_to_parent(g, res)
            sea.setdefault(par, set()).add(eid)
        out[name + "_locations"] = {k: frozenset(v) for k, v in loc.items()}
        out[name + "_search"] = {k: frozenset(v) for k, v in sea.items()}
    return out


def index_mismatches(sim):
    """list of (index name, description) where the stored index differs from the entity-derived one"""
    exp = expected_indexes(sim)
    bad = []
    for name, want in exp.items():
        have = getattr(sim, name)
        have_d = {k: frozenset(v) for k, v in have.items()}
        if have_d != want:
            for k in sorted(set(have_d) | set(want)):
                if have_d.get(k) != want.get(k):
                    h = have_d.get(k)
                    w = want.get(k)
                    kind = (
                        "empty bucket"
                        if h is not None and len(h) == 0
                        else "stale or extra entry"
                        if h is not None and (w is None or h - w)
                        else "missing entry"
                    )
                    bad.append((name, kind, k, sorted(h) if h is not None else None, sorted(w) if w else None))
    return bad


_ENT_CACHE: dict = {}
_ENT_CACHE_MAX = 200000

_STATIC_DROP = WRITE_ONLY | {("Request", "departure_time"), ("ChargeQueueing", "enqueue_time")}
if "departure_time" in AUDIT_KEPT:
    _STATIC_DROP = _STATIC_DROP - {("Request", "departure_time")} | {("Request", "departure_time")}


def _entity_static(e, idle_clip: int):
    """context-free canonical part of one entity, cached by object identity (the object is kept alive
    in the cache, so its id cannot be reused)"""
    memo = _ENT_CACHE.get(idle_clip)
    if memo is None or len(memo) > _ENT_CACHE_MAX:
        memo = _ENT_CACHE[idle_clip] = {}
    hit = memo.get(id(e))
    if hit is not None and hit[0] is e:
        return hit[1]
    xform = {
        ("Idle", "idle_duration"): lambda v, o: min(int(v), idle_clip),
    }
    return canon(e, drop=_STATIC_DROP, xform=xform, memo=memo)


def state_key(sim, idle_clip: int, keep_tod: bool = False) -> Any:
    """canonical abstract form of a SimulationState (hashable nested tuple)"""
    now = int(sim.sim_time)
    vehicles = sim.vehicles
    # dense rank of enqueue times over all queueing vehicles (only their order is ever read)
    enq = {}
    for vid, v in vehicles.items():
        s = v.vehicle_state
        if s.__class__.__name__ == "ChargeQueueing":
            enq[vid] = int(s.enqueue_time)
    rank = {t: i for i, t in enumerate(sorted(set(enq.values())))}
    vs = tuple((vid, _entity_static(vehicles[vid], idle_clip), rank.get(enq.get(vid), -1)) for vid in sorted(vehicles))
    rs = tuple(
        (rid, _entity_static(r, idle_clip), now - int(r.departure_time))
        for rid, r in sorted(sim.requests.items())
    )
    ss = tuple((sid, _entity_static(s, idle_clip)) for sid, s in sorted(sim.stations.items()))
    bs = tuple((bid, _entity_static(b, idle_clip)) for bid, b in sorted(sim.bases.items()))
    body = (
        int(sim.sim_timestep_duration_seconds),
        sim.sim_h3_location_resolution,
        sim.sim_h3_search_resolution,
        vs,
        rs,
        ss,
        bs,
    )
    extra = []
    if keep_tod:
        extra.append(("tod", now % 86400))
    bad = index_mismatches(sim)
    if bad:
        extra.append(("index", tuple((b[0], b[1], b[2], tuple(b[3] or ())) for b in bad)))
    return (body, tuple(extra))


def key_hash(k: Any) -> bytes:
    return hashlib.blake2b(repr(k).encode(), digest_size=16).digest()


# ---------------------------------------------------------------------------------------------------
# deep fingerprint (C16): follows mutable containers and object __dict__s


def deep_fingerprint(obj: Any, max_depth: int = 40) -> str:
    h = hashlib.blake2b(digest_size=16)
    seen_objs: dict = {}

    def go(o, d):
        if d > max_depth:
            h.update(b"<deep>")
            return
        if o is None or isinstance(o, (bool, int, str, bytes)):
            h.update(repr(o).encode())
            return
        if isinstance(o, float):
            h.update(repr(o).encode())
            return
        if isinstance(o, enum.Enum):
            h.update(("E" + o.__class__.__name__ + o.name).encode())
            return
        if isinstance(o, uuid.UUID):
            h.update(o.bytes)
            return
        names = _fields(o)
        if names:
            h.update(("{" + o.__class__.__name__).encode())
            for n in names:
                h.update(n.encode())
                go(getattr(o, n), d + 1)
            h.update(b"}")
            return
        if isinstance(o, (immutables.Map, dict)):
            h.update(("M" + o.__class__.__name__).encode())
            for k in sorted(o.keys(), key=repr):
                go(k, d + 1)
                go(o[k], d + 1)
            h.update(b"m")
            return
        if isinstance(o, (frozenset, set)):
            h.update(("S" + o.__class__.__name__).encode())
            for x in sorted(o, key=repr):
                go(x, d + 1)
            h.update(b"s")
            return
        if isinstance(o, (tuple, list)):
            h.update(("T" + o.__class__.__name__).encode())
            for x in o:
                go(x, d + 1)
            h.update(b"t")
            return
        try:
            import numpy as np

            if isinstance(o, np.ndarray):
                h.update(b"ND" + o.tobytes())
                return
            if isinstance(o, np.generic):
                h.update(repr(o.item()).encode())
                return
        except ImportError:  # pragma: no cover
            pass
        oid = id(o)
        if oid in seen_objs:
            h.update(b"<ref>")
            return
        seen_objs[oid] = True
        mod = getattr(o.__class__, "__module__", "") or ""
        if mod.startswith("nrel.hive") and hasattr(o, "__dict__"):
            h.update(("O" + o.__class__.__name__).encode())
            for k in sorted(vars(o).keys()):
                v = vars(o)[k]
                # graph / kd-tree payloads of a road network: structure hashed shallowly
                h.update(k.encode())
                if mod.startswith("nrel.hive"):
                    go(v, d + 1)
            h.update(b"o")
            return
        if mod.startswith("networkx"):
            try:
                h.update(b"G")
                for n, data in sorted(o.nodes(data=True), key=lambda p: repr(p[0])):
                    go(n, d + 1)
                    go(dict(data), d + 1)
                for u, v, data in sorted(o.edges(data=True), key=lambda p: (repr(p[0]), repr(p[1]))):
                    go((u, v), d + 1)
                    go(dict(data), d + 1)
                return
            except Exception:
                pass
        h.update(("<" + o.__class__.__name__ + ">").encode())

    go(obj, 0)
    return h.hexdigest()
