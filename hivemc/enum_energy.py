"""
C04 -- vehicle energy stays physical and fully accounted for.

ENUM part: every sequence of drive / idle / charge operations up to a depth over a small alphabet, for every
powertrain definition and initial level, executed through the real mechatronics (consume_energy / idle /
add_energy) as a BFS over reached (level, gained, expended) ledgers; plus one-step checks through the
vehicle-level operations (vehicle_state_ops.move / charge, Idle / ChargeQueueing updates) on a one-vehicle
SimulationState for every step length.
"""
from __future__ import annotations

import itertools
import os
from typing import Any, Dict, List, Tuple

import immutables
from pkg_resources import resource_filename

from . import VERIF, seed, tier
from .enumrun import pmap, rotate
from .report import Check, Finding, log

from nrel.hive.model.energy.charger import build_chargers_table
from nrel.hive.model.energy.energytype import EnergyType
from nrel.hive.model.roadnetwork.linktraversal import LinkTraversal
from nrel.hive.model.vehicle.mechatronics import build_mechatronics_table

DTS = (1, 30, 59, 60, 61, 90, 600, 3600)
ROUTES = {
    "short": (("l1", 0.05, 40.0),),
    "long": (("l1", 5.0, 40.0),),
    "three": (("l1", 0.3, 10.0), ("l2", 1.0, 40.0), ("l3", 2.0, 100.0)),
}
EPS = 1e-9


def mech_table():
    shipped = build_mechatronics_table(
        resource_filename("nrel.hive.resources.mechatronics", "mechatronics.yaml"),
        os.path.dirname(resource_filename("nrel.hive.resources.scenarios.denver_downtown", "denver_demo.yaml")),
    )
    ours = build_mechatronics_table(
        os.path.join(VERIF, "worlds", "mechatronics.yaml"),
        os.path.dirname(resource_filename("nrel.hive.resources.scenarios.denver_downtown", "denver_demo.yaml")),
    )
    t = {"leaf_50": shipped["leaf_50"], "toyota_corolla": shipped["toyota_corolla"], "small": ours["small"], "tiny_thirsty": ours["tiny_thirsty"]}
    return t


def chargers():
    return build_chargers_table(resource_filename("nrel.hive.resources.chargers", "default_chargers.csv"))


def route_of(name):
    return tuple(LinkTraversal(lid, "8f268cdac240000", "8f268cdac200000", km, sp) for lid, km, sp in ROUTES[name])


def etype(m):
    return EnergyType.GASOLINE if m.__class__.__name__ == "ICE" else EnergyType.ELECTRIC


def capacity(m) -> float:
    return m.tank_capacity_gallons if m.__class__.__name__ == "ICE" else m.battery_capacity_kwh


def idle_rate(m) -> float:
    return m.idle_gallons_per_hour if m.__class__.__name__ == "ICE" else m.idle_kwh_per_hour


def initial_levels(m) -> Dict[str, float]:
    cap = capacity(m)
    full_thr = cap if m.__class__.__name__ == "ICE" else cap - m.battery_full_threshold_kwh
    return {
        "empty": 0.0,
        "one_idle_step": idle_rate(m) * 60 / 3600.0,
        "ten_percent": 0.1 * cap,
        "just_below_full": full_thr - 1e-6,
        "full": cap,
    }


def mk_vehicle(m, mech_id: str, level: float):
    from nrel.hive.model.entity_position import EntityPosition
    from nrel.hive.model.membership import Membership
    from nrel.hive.model.vehicle.vehicle import Vehicle
    from nrel.hive.state.driver_state.driver_state import DriverState
    from nrel.hive.state.vehicle_state.idle import Idle

    et = etype(m)
    return Vehicle(
        id="v0",
        position=EntityPosition("8f268cdac240000-8f268cdac240000", "8f268cdac240000"),
        membership=Membership(),
        mechatronics_id=mech_id,
        energy=immutables.Map({et: float(level)}),
        energy_gained=immutables.Map({et: 0.0}),
        energy_expended=immutables.Map({et: 0.0}),
        vehicle_state=Idle.build("v0"),
        driver_state=DriverState.build("v0", None, None, False),
        total_seats=4,
    )


def ops_alphabet() -> List[tuple]:
    ops = [("drive", r) for r in ROUTES] + [("idle", dt) for dt in (1, 60, 90, 3600)]
    for ch in ("LEVEL_2", "DCFC", "GAS_PUMP"):
        for dt in DTS:
            ops.append(("charge", ch, dt))
    return ops


def dt_class(dt: int, slice_s: int = 60) -> str:
    if dt < slice_s:
        return "shorter_than_slice"
    if dt == slice_s:
        return "one_slice"
    return "multiple_of_slice" if dt % slice_s == 0 else "not_multiple_of_slice"


def plug_limit(charger, dt: float) -> float:
    """the most energy this plug can deliver in dt seconds, in the charger's energy unit"""
    if charger.energy_type == EnergyType.ELECTRIC:
        return charger.rate * dt / 3600.0
    return charger.rate * dt


def apply_op(m, v, op, table_chargers):
    if op[0] == "drive":
        return m.consume_energy(v, route_of(op[1]))
    if op[0] == "idle":
        return m.idle(v, op[1])
    ch = table_chargers[op[1]]
    nv, _ = m.add_energy(v, ch, op[2])
    return nv


def judge(m, mech_id, initial: float, pre, post, op, table_chargers) -> List[Tuple[str, tuple, str]]:
    """oracle for one operation; returns [(clause, discriminators, message)]"""
    et = etype(m)
    cap = capacity(m)
    cls = m.__class__.__name__
    out = []
    lvl0, lvl1 = pre.energy[et], post.energy[et]
    g0, g1 = pre.energy_gained[et], post.energy_gained[et]
    x0, x1 = pre.energy_expended[et], post.energy_expended[et]
    opk = op[0] if op[0] != "charge" else f"charge:{op[1]}"
    if lvl1 < -EPS or lvl1 > cap + EPS:
        out.append(("range", (cls, opk), f"{mech_id}: level {lvl1} outside [0, {cap}] after {op}"))
    if abs(lvl1 - (initial + g1 - x1)) > 1e-7 * max(1.0, cap):
        out.append(("ledger", (cls, opk), f"{mech_id}: level {lvl1} != initial {initial} + gained {g1} - expended {x1} after {op}"))
    if op[0] in ("drive", "idle"):
        positive = True if op[0] == "drive" else (op[1] > 0 and idle_rate(m) > 0)
        if positive and lvl0 > 0:
            if not (lvl1 < lvl0):
                out.append(("not_lowered", (cls, opk), f"{mech_id}: {op} with level {lvl0} > 0 left the level at {lvl1}"))
            if abs((x1 - x0) - (lvl0 - lvl1)) > 1e-9 or not (x1 > x0):
                out.append(("expenditure_booked", (cls, opk), f"{mech_id}: {op}: level fell by {lvl0 - lvl1}, expended rose by {x1 - x0}"))
        if g1 != g0:
            out.append(("gained_changed", (cls, opk), f"{mech_id}: {op} changed energy_gained"))
    else:
        ch = table_chargers[op[1]]
        dt = op[2]
        if lvl1 < lvl0 - EPS:
            out.append(("charge_lowered", (cls, opk), f"{mech_id}: charging lowered the level {lvl0} -> {lvl1}"))
        if ch.energy_type != et:
            if lvl1 != lvl0:
                out.append(("wrong_energy_type", (cls, opk), f"{mech_id}: plug of another energy type changed the level"))
        else:
            lim = plug_limit(ch, dt)
            if lvl1 - lvl0 > lim + EPS:
                out.append(
                    (
                        "exceeds_plug",
                        (cls, opk, dt_class(dt)),
                        f"{mech_id}: {op[1]} for {dt} s added {lvl1 - lvl0:.6f} but the plug delivers at most {lim:.6f}",
                    )
                )
        if abs((g1 - g0) - (lvl1 - lvl0)) > 1e-9:
            out.append(("gain_booked", (cls, opk), f"{mech_id}: level rose by {lvl1 - lvl0}, gained by {g1 - g0}"))
        if x1 != x0:
            out.append(("expended_changed", (cls, opk), f"{mech_id}: charging changed energy_expended"))
    return out


def _seq_shard(shard) -> Dict[str, Any]:
    mech_id, level_name, depth = shard
    mt = mech_table()
    m = mt[mech_id]
    ct = chargers()
    ops = ops_alphabet()
    initial = initial_levels(m)[level_name]
    et = etype(m)
    v0 = mk_vehicle(m, mech_id, initial)
    seen = {(round(initial, 12), 0.0, 0.0)}
    frontier = [((), v0)]
    nops = 0
    nontrivial = set()
    findings = {}
    samples = []
    for d in range(depth):
        nxt = []
        for hist, v in frontier:
            for op in ops:
                try:
                    nv = apply_op(m, v, op, ct)
                except Exception as e:
                    findings.setdefault(("exception", m.__class__.__name__, op[0], type(e).__name__), (f"{mech_id}: {op} raised {type(e).__name__}: {e}", hist + (op,)))
                    continue
                nops += 1
                for clause, disc, msg in judge(m, mech_id, initial, v, nv, op, ct):
                    findings.setdefault((clause,) + disc, (msg, hist + (op,)))
                if nv.energy[et] != v.energy[et]:
                    nontrivial.add((round(v.energy[et], 9), op))
                k = (round(nv.energy[et], 12), round(nv.energy_gained[et], 12), round(nv.energy_expended[et], 12))
                if k not in seen:
                    seen.add(k)
                    nxt.append((hist + (op,), nv))
                    if len(samples) < 1 and len(hist) == depth - 1:
                        samples.append({"mechatronics": mech_id, "initial": level_name, "ops": [list(o) for o in hist + (op,)], "level": nv.energy[et]})
        frontier = nxt
    return {
        "ops": nops,
        "states": len(seen),
        "nontrivial": len(nontrivial),
        "findings": [(list(k), msg, {"mechatronics": mech_id, "initial": level_name, "ops": [list(o) for o in h]}) for k, (msg, h) in findings.items()],
        "samples": samples,
    }


# -- vehicle-level one-step checks ---------------------------------------------------------------------


def _veh_shard(shard) -> Dict[str, Any]:
    """move / charge / idle / queue-idle through vehicle_state_ops and the vehicle states, every step length"""
    mech_id = shard
    from .worlds import build_sim, make_config, make_env, mk_station, sites
    from nrel.hive.model.roadnetwork.haversine_roadnetwork import HaversineRoadNetwork
    from nrel.hive.runner.environment import Environment
    from nrel.hive.state.vehicle_state import vehicle_state_ops
    from nrel.hive.state.vehicle_state.dispatch_station import DispatchStation
    from nrel.hive.state.vehicle_state.charging_station import ChargingStation
    from nrel.hive.state.simulation_state import simulation_state_ops
    from .worlds import CapturingReporter

    mt = mech_table()
    m = mt[mech_id]
    ct = chargers()
    S = sites()
    et = etype(m)
    cap = capacity(m)
    findings = {}
    n = 0
    samples = []
    import collections

    sweep_cov = collections.Counter()
    for dt, throttle in itertools.product(DTS, (1.0, 0.24)):
        cfg = make_config(step=dt)
        env = Environment(config=cfg, mechatronics=immutables.Map(mt), chargers=ct, reporter=CapturingReporter())
        rn = HaversineRoadNetwork(sim_h3_resolution=15)
        plugs = {"LEVEL_2": 1, "DCFC": 1} if et == EnergyType.ELECTRIC else {"GAS_PUMP": 1}
        st = mk_station(env, rn, "s0", S["A"], plugs)
        # throttle < 1: a station whose plug rates were lowered at run time (Station.scale_charger_rate, the grid
        # co-simulation hook): the plug that counts is the station's own charger instance, not the catalogue entry
        if throttle < 1.0:
            for cid in plugs:
                st = st.scale_charger_rate(cid, throttle).unwrap()
        for lname, lvl in initial_levels(m).items():
            v = mk_vehicle(m, mech_id, lvl)
            v = v.modify_position(rn.position_from_geoid(S["A"]))
            sim = build_sim(env, rn, vehicles=(v,), stations=(st,))
            # charge through vehicle_state_ops.charge, for each plug
            for cid in plugs:
                vs = ChargingStation.build("v0", "s0", cid)
                err, s1 = vs.enter(sim, env)
                if err or s1 is None:
                    continue
                env.reporter.take()
                err, s2 = vehicle_state_ops.charge(s1, env, "v0", "s0", cid)
                n += 1
                if err is not None or s2 is None:
                    if not m.is_full(v):
                        findings.setdefault(("charge_error", m.__class__.__name__, cid), (f"{mech_id}: charge() failed for a vehicle that is not full: {err}", {"dt": dt, "level": lname}))
                    continue
                a, b = s1.vehicles["v0"], s2.vehicles["v0"]
                lim = plug_limit(st.state[cid].charger, dt)
                d = b.energy[et] - a.energy[et]
                if d > lim + EPS:
                    findings.setdefault(("exceeds_plug", m.__class__.__name__, "charge():" + cid, dt_class(dt)), (f"{mech_id}: one {dt} s step on {cid} added {d:.6f}, the plug delivers at most {lim:.6f}", {"dt": dt, "level": lname, "charger": cid}))
                if d < -EPS or b.energy[et] > cap + EPS:
                    findings.setdefault(("range", m.__class__.__name__, "charge():" + cid), (f"{mech_id}: level {b.energy[et]} after charging", {"dt": dt, "level": lname, "charger": cid}))
                if abs((b.energy_gained[et] - a.energy_gained[et]) - d) > 1e-9:
                    findings.setdefault(("gain_booked", m.__class__.__name__, "charge():" + cid), (f"{mech_id}: gained != level change", {"dt": dt, "level": lname, "charger": cid}))
                if len(samples) < 2:
                    samples.append({"mechatronics": mech_id, "dt": dt, "level": lname, "charger": cid, "added": d, "plug_limit": lim})
            # move through vehicle_state_ops.move towards M1 / F1
            for dest in ("N1", "M1", "F1"):
                route = rn.route(v.position, rn.position_from_geoid(S[dest]))
                vs = DispatchStation.build("v0", "s0", route, list(plugs)[0])
                v_t = v.modify_vehicle_state(vs)
                err, s1 = simulation_state_ops.modify_vehicle(sim, v_t)
                env.reporter.take()
                err, s2 = vehicle_state_ops.move(s1, env, "v0")
                n += 1
                if err is not None or s2 is None:
                    findings.setdefault(("move_error", m.__class__.__name__), (f"{mech_id}: move() failed: {err}", {"dt": dt, "level": lname, "dest": dest}))
                    continue
                a, b = s1.vehicles["v0"], s2.vehicles["v0"]
                moved = b.geoid != a.geoid
                used = a.energy[et] - b.energy[et]
                oos = b.vehicle_state.__class__.__name__ == "OutOfService"
                if moved and a.energy[et] > 0 and not used > 0:
                    findings.setdefault(("not_lowered", m.__class__.__name__, "move()"), (f"{mech_id}: vehicle moved {b.distance_traveled_km - a.distance_traveled_km:.4f} km and its level stayed {b.energy[et]}", {"dt": dt, "level": lname, "dest": dest}))
                if moved and abs((b.energy_expended[et] - a.energy_expended[et]) - used) > 1e-9:
                    findings.setdefault(("expenditure_booked", m.__class__.__name__, "move()"), (f"{mech_id}: level fell by {used}, expended rose by {b.energy_expended[et] - a.energy_expended[et]}", {"dt": dt, "level": lname, "dest": dest}))
                if oos and (moved or b.distance_traveled_km != a.distance_traveled_km):
                    findings.setdefault(("moved_without_energy", m.__class__.__name__), (f"{mech_id}: out of service but moved", {"dt": dt, "level": lname, "dest": dest}))
                if moved and b.energy[et] <= 0 and not oos:
                    findings.setdefault(("moved_on_empty", m.__class__.__name__), (f"{mech_id}: vehicle moved on and arrived with an empty store instead of going out of service", {"dt": dt, "level": lname, "dest": dest}))
                if a.energy[et] <= 0 and moved:
                    findings.setdefault(("moved_from_empty", m.__class__.__name__), (f"{mech_id}: empty vehicle moved", {"dt": dt, "level": lname, "dest": dest}))
            # idle through the Idle state's update
            err, s2 = v.vehicle_state._perform_update(sim, env)
            n += 1
            if s2 is not None:
                a, b = v, s2.vehicles["v0"]
                if a.energy[et] > 0 and idle_rate(m) > 0 and not b.energy[et] < a.energy[et]:
                    findings.setdefault(("not_lowered", m.__class__.__name__, "Idle.update"), (f"{mech_id}: idling {dt} s left the level at {b.energy[et]}", {"dt": dt, "level": lname}))
                if abs((b.energy_expended[et] - a.energy_expended[et]) - (a.energy[et] - b.energy[et])) > 1e-9:
                    findings.setdefault(("expenditure_booked", m.__class__.__name__, "Idle.update"), (f"{mech_id}: idle expenditure not booked consistently", {"dt": dt, "level": lname}))
    # -- a vehicle that lacks the energy for its next movement stops: levels swept around the need of ONE step's stretch, on
    #    slow, ordinary and fast roads (the consumption tables depend on speed; the nominal range rating does not)
    for dt, kmph in itertools.product((30, 60, 61, 600), SWEEP_SPEEDS):
        cfg = make_config(step=dt)
        env = Environment(config=cfg, mechatronics=immutables.Map(mt), chargers=ct, reporter=CapturingReporter())
        rn = _speed_network(kmph)
        v_ref = mk_vehicle(m, mech_id, 0.5 * cap).modify_position(rn.position_from_geoid(S["A"]))
        unit_per_km = (0.5 * cap) / m.range_remaining_km(v_ref)  # nominal rating
        for dest in ("M1", "F1"):
            route = rn.route(v_ref.position, rn.position_from_geoid(S[dest]))
            stretch_km = min(kmph * dt / 3600.0, sum(l.distance_km for l in route))
            nominal = unit_per_km * stretch_km
            for f in SWEEP_FACTORS:
                lvl = min(cap, nominal * f)
                v = mk_vehicle(m, mech_id, lvl).modify_position(rn.position_from_geoid(S["A"]))
                vs = DispatchStation.build("v0", "s0", route, "DCFC")
                sim = build_sim(env, rn, vehicles=(v.modify_vehicle_state(vs),))
                env.reporter.take()
                err, s2 = vehicle_state_ops.move(sim, env, "v0")
                n += 1
                rp = {"dt": dt, "speed_kmph": kmph, "dest": dest, "level_factor_of_nominal_need": f, "sweep": True}
                if err is not None or s2 is None:
                    findings.setdefault(("move_error", m.__class__.__name__, "sweep"), (f"{mech_id}: move() failed: {err}", rp))
                    continue
                a, b = sim.vehicles["v0"], s2.vehicles["v0"]
                moved = b.geoid != a.geoid or b.distance_traveled_km > a.distance_traveled_km
                oos = b.vehicle_state.__class__.__name__ == "OutOfService"
                sweep_cov["oos" if oos else "moved" if moved else "stayed"] += 1
                if moved and b.energy[et] <= 0 and not oos:
                    findings.setdefault(("moved_on_empty", m.__class__.__name__, "sweep", _speed_class(kmph)), (f"{mech_id}: with {lvl:.6f} on board ({f} x the nominal need of the stretch) at {kmph} km/h the vehicle moved on and ended the step empty, still {b.vehicle_state.__class__.__name__}", rp))
                if oos and moved:
                    findings.setdefault(("moved_without_energy", m.__class__.__name__, "sweep", _speed_class(kmph)), (f"{mech_id}: out of service but moved", rp))
                if moved and not oos and not (a.energy[et] - b.energy[et]) > 0:
                    findings.setdefault(("not_lowered", m.__class__.__name__, "sweep", _speed_class(kmph)), (f"{mech_id}: moved and expended nothing", rp))
                if b.energy[et] < -EPS:
                    findings.setdefault(("range", m.__class__.__name__, "sweep"), (f"{mech_id}: level {b.energy[et]} after moving", rp))
    return {"ops": n, "sweep": dict(sweep_cov), "findings": [(list(k), msg, dict(rp, mechatronics=mech_id, vehicle_level=True)) for k, (msg, rp) in findings.items()], "samples": samples}


SWEEP_SPEEDS = (8, 25, 40, 70, 100)
SWEEP_FACTORS = (0.25, 0.5, 0.75, 0.9, 0.95, 1.0, 1.02, 1.05, 1.1, 1.15, 1.2, 1.3, 1.4, 1.5, 1.75, 2.0, 3.0)


def _speed_class(kmph) -> str:
    return "slow" if kmph < 32 else "fast" if kmph > 64 else "ordinary"


def _speed_network(kmph):
    from nrel.hive.model.roadnetwork.haversine_roadnetwork import HaversineRoadNetwork

    class _Net(HaversineRoadNetwork):
        _AVG_SPEED_KMPH = kmph

    return _Net(sim_h3_resolution=15)


def c04_enum(c: Check):
    quick = tier() == "quick"
    depth = 3 if quick else 4
    mt = mech_table()
    shards = [(mid, lvl, depth) for mid in sorted(mt) for lvl in initial_levels(mt[mid])]
    results = pmap(_seq_shard, rotate(shards, seed()))
    vres = pmap(_veh_shard, sorted(mt))
    nops = sum(r["ops"] for r in results) + sum(r["ops"] for r in vres)
    states = sum(r["states"] for r in results)
    nontrivial = sum(r["nontrivial"] for r in results)
    for r in results + vres:
        for sig, msg, rp in r["findings"]:
            c.add(Finding("C04", sig, msg, dict(rp, engine="enum_energy")))
    cov = c.coverage
    cov["states"] = cov.get("states", 0) + states
    cov["transitions"] = cov.get("transitions", 0) + nops
    cov["traces_validated_against_impl"] = cov.get("traces_validated_against_impl", 0) + nops
    cov["evaluations"] = nops
    cov["distinct_nontrivial"] = nontrivial
    cov["rule"] = (
        f"BFS over all sequences of <= {depth} operations from {len(ops_alphabet())} (drive x3 routes, idle x4 durations, charge x3 plugs x8 durations incl. "
        "shorter than / equal to / not a multiple of the 60 s curve slice) for 4 mechatronics x 5 initial levels, deduplicated on the (level, gained, expended) ledger; "
        "plus one-step vehicle-level checks (charge / move / Idle.update) for the 8 step lengths and a sweep of 17 levels around the nominal need of one step's stretch on 5 road speeds (slow / ordinary / fast: the consumption tables depend on speed); non-trivial = distinct (level, op) whose op changed the level"
    )
    sweep = {}
    for r in vres:
        for k, v in r.get("sweep", {}).items():
            sweep[k] = sweep.get(k, 0) + v
    cov["one_step_need_sweep"] = dict(sweep, speeds_kmph=list(SWEEP_SPEEDS), level_factors_of_nominal_need=list(SWEEP_FACTORS), step_lengths=[30, 60, 61, 600])
    if not (sweep.get("oos") and sweep.get("moved")):
        c.vacuous.append("c04:need_sweep: the level sweep around one step's need never produced both outcomes (moved / out of service)")
    cov["enum_ledger_states"] = states
    cov["enum_operations"] = nops
    cov.setdefault("samples", [])
    cov["samples"] += [s for r in results for s in r["samples"]][:3] + [s for r in vres for s in r["samples"]][:2]
    log(f"  C04 ENUM: {nops} operations, {states} ledger states, depth {depth}, {sum(len(r['findings']) for r in results + vres)} violation signatures")


def replay(body) -> int:
    rp = body["replay"]
    mt = mech_table()
    m = mt[rp["mechatronics"]]
    ct = chargers()
    want = [str(x) for x in body["signature"]]
    if rp.get("vehicle_level"):
        r = _veh_shard(rp["mechatronics"])
        sigs = [[str(x) for x in f[0]] for f in r["findings"]]
        for f in r["findings"]:
            print(" | ".join(map(str, f[0])), "::", f[1])
    else:
        initial = initial_levels(m)[rp["initial"]]
        v = mk_vehicle(m, rp["mechatronics"], initial)
        sigs = []
        for op in rp["ops"]:
            op = tuple(op)
            nv = apply_op(m, v, op, ct)
            et = etype(m)
            print(f"{op}: level {v.energy[et]} -> {nv.energy[et]} gained {nv.energy_gained[et]} expended {nv.energy_expended[et]}")
            for clause, disc, msg in judge(m, rp["mechatronics"], initial, v, nv, op, ct):
                print("   ", clause, msg)
                sigs.append([str(x) for x in (clause,) + disc])
            v = nv
    if want in sigs or sigs:
        print(f"VIOLATION property=C04 replay={body.get('_path')}")
        return 1
    print("not reproduced on this tree")
    return 0
