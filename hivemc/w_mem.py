"""
W-mem (C10): fleets {f1, f2}; one world per assignment of memberships (none / f1 / f2 / both) to two vehicles, a
station, a base with its own station, and f1 / f2 to the request; plus a human driver whose home base carries the
private membership that initialisation creates.  Full instruction menu for both autonomous vehicles, incl.
instructions aimed at the private home base.
"""
from __future__ import annotations

from nrel.hive.dispatcher.instruction_generator.charging_fleet_manager import ChargingFleetManager
from nrel.hive.dispatcher.instruction_generator.dispatcher import Dispatcher
from nrel.hive.model.roadnetwork.haversine_roadnetwork import HaversineRoadNetwork

from .worlds import World, build_sim, make_config, make_env, mk_base, mk_station, mk_vehicle, sites

MEMBERSHIPS = {"none": (), "f1": ("f1",), "f2": ("f2",), "both": ("f1", "f2")}


class MemWorld(World):
    name = "W-mem"

    def __init__(self, v0="f1", v1="f1", s0="none", b0="none", bs="none", r0="f1", pairs=False, declared=("f1", "f2"), s2="f2"):
        super().__init__()
        self.pairs = pairs
        declared = tuple(declared)
        self.name = f"W-mem[v0={v0},v1={v1},s0={s0},b0={b0},bs={bs},r0={r0}" + ("" if s2 == "f2" else f",s2={s2}") + ("" if declared == ("f1", "f2") else f",declared={'+'.join(declared)}") + "]"
        S = sites()
        cfg = make_config(step=60, cancel=240, idle_timeout=120, dispatcher={"matching_range_km_threshold": 0.0, "charging_range_km_threshold": 5.0, "charging_range_km_soft_threshold": 6.0, "max_search_radius_km": 5.0})
        self.env = make_env(cfg, fleets=declared)  # the fleets the scenario declares (fleets file)
        env = self.env
        rn = HaversineRoadNetwork(sim_h3_resolution=15)
        self.rn = rn
        st0 = mk_station(env, rn, "s0", S["N1"], {"DCFC": 1}, fleets=MEMBERSHIPS[s0])
        # a twin station on s0's own cell that belongs to another fleet (two operators sharing one site): a vehicle plugged in at
        # the one is told to plug in at the other without moving
        st2 = mk_station(env, rn, "s2", S["N1"], {"DCFC": 1, "LEVEL_2": 1}, fleets=MEMBERSHIPS[s2])
        stb = mk_station(env, rn, "bs", S["X1"], {"LEVEL_2": 1}, fleets=MEMBERSHIPS[bs])
        base0 = mk_base(rn, "b0", S["X1"], stalls=2, station_id="bs", fleets=MEMBERSHIPS[b0])
        priv = "h0_private_hb"
        hb = mk_base(rn, "hb", S["N2"], stalls=1, station_id=None).add_membership(priv)
        veh0 = mk_vehicle(env, rn, "v0", S["N1"], "quiet", energy=0.5, fleets=MEMBERSHIPS[v0])  # low: the charging manager speaks
        veh1 = mk_vehicle(env, rn, "v1", S["X1"], "quiet", soc=0.5, fleets=MEMBERSHIPS[v1])
        h0 = mk_vehicle(env, rn, "h0", S["N2"], "quiet", soc=0.5, fleets=("f1",), schedule_id="never", home_base_id="hb").add_membership(priv)
        # a second driver who names the SAME home base: initialisation lets the last driver's private id overwrite the others', so
        # the base carries h0's id only and h1 -- although it is "his" home -- is not granted access to it; he stands on its cell,
        # off shift, and his own go-home logic asks for a stall there every step
        h1 = mk_vehicle(env, rn, "h1", S["N2"], "quiet", soc=0.5, fleets=("f1",), schedule_id="never", home_base_id="hb").add_membership("h1_private_hb")
        self.starts = {"init": build_sim(env, rn, vehicles=(veh0, veh1, h0, h1), stations=(st0, st2, stb), bases=(base0, hb))}
        self.request_specs = {"r0": {"origin": S["N2"], "destination": S["M2"], "fleet_id": r0}}
        per_vehicle = [("Idle",), ("DispatchTrip", "r0"), ("DispatchStation", "s0", "DCFC"), ("ChargeStation", "s0", "DCFC"),
                       ("DispatchStation", "s2", "DCFC"), ("ChargeStation", "s2", "LEVEL_2"),
                       ("DispatchBase", "b0"), ("ReserveBase", "b0"), ("ChargeBase", "b0", "LEVEL_2"),
                       ("DispatchBase", "hb"), ("ReserveBase", "hb")]
        self.controller_menu = [("I", k[0], vid) + tuple(k[1:]) for vid in ("v0", "v1") for k in per_vehicle]
        self.probe_generators = (Dispatcher(cfg.dispatcher), ChargingFleetManager(cfg.dispatcher))


def make(**kw):
    return MemWorld(**kw)
