"""
Property monitors for FSX: functions (ctx) -> [Violation] evaluated on every explored transition,
plus (world, sim) -> [Violation] evaluated on every initial state.

A monitor fires on the transition that *creates* an inconsistency (the explorer prunes the post-state).
Signatures carry the discriminators that the known-findings file matches on.
"""
from __future__ import annotations

from collections import Counter
from typing import Any, Dict, List, Optional, Tuple

import h3

from .canon import index_mismatches
from .fsx import Ctx, Violation

TRAVEL = ("DispatchTrip", "ServicingTrip", "DispatchStation", "DispatchBase", "Repositioning",
          "DispatchPoolingTrip", "ServicingPoolingTrip")


def sname(v) -> str:
    return v.vehicle_state.__class__.__name__


def instr_kind(ctx: Ctx, vid: str) -> str:
    r = ctx.instructed().get(vid)
    return r["instruction_type"] if r else "none"


def addressed_by_controller(ctx: Ctx) -> Dict[str, tuple]:
    return {e[2]: e for e in ctx.events if e[0] == "I"}


# ---------------------------------------------------------------------------------------------------
# C02 -- plug / queue / stall counters


def c02_state(sim) -> List[Tuple[str, tuple, str]]:
    """returns [(clause, discriminators, message)]"""
    out = []
    charging: Counter = Counter()
    queueing: Counter = Counter()
    parked: Counter = Counter()
    for v in sim.vehicles.values():
        s = v.vehicle_state
        n = s.__class__.__name__
        if n == "ChargingStation":
            charging[(s.station_id, s.charger_id)] += 1
        elif n == "ChargingBase":
            parked[s.base_id] += 1
            b = sim.bases.get(s.base_id)
            if b is not None and b.station_id is not None:
                charging[(b.station_id, s.charger_id)] += 1
        elif n == "ChargeQueueing":
            queueing[(s.station_id, s.charger_id)] += 1
        elif n == "ReserveBase":
            parked[s.base_id] += 1
    for sid, st in sim.stations.items():
        for cid, cs in st.state.items():
            if not (0 <= cs.available_chargers <= cs.total_chargers):
                out.append(("plug_range", (cid,), f"station {sid} plug {cid}: available={cs.available_chargers} total={cs.total_chargers}"))
            used = cs.total_chargers - cs.available_chargers
            if used != charging.get((sid, cid), 0):
                out.append(
                    (
                        "plug_count",
                        (cid, "more_in_use_than_vehicles" if used > charging.get((sid, cid), 0) else "fewer_in_use_than_vehicles"),
                        f"station {sid} plug {cid}: installed-free={used} but {charging.get((sid, cid), 0)} vehicle(s) charging there",
                    )
                )
            if cs.enqueued_vehicles != queueing.get((sid, cid), 0):
                out.append(
                    (
                        "queue_count",
                        (cid, "counter_high" if cs.enqueued_vehicles > queueing.get((sid, cid), 0) else "counter_low"),
                        f"station {sid} plug {cid}: enqueued={cs.enqueued_vehicles} but {queueing.get((sid, cid), 0)} vehicle(s) queueing",
                    )
                )
    for bid, b in sim.bases.items():
        if not (0 <= b.available_stalls <= b.total_stalls):
            out.append(("stall_range", (), f"base {bid}: available={b.available_stalls} total={b.total_stalls}"))
        used = b.total_stalls - b.available_stalls
        if used != parked.get(bid, 0):
            out.append(
                (
                    "stall_count",
                    ("more_in_use_than_vehicles" if used > parked.get(bid, 0) else "fewer_in_use_than_vehicles",),
                    f"base {bid}: total-free={used} but {parked.get(bid, 0)} vehicle(s) parked or charging there",
                )
            )
    return out


def c02_transition(ctx: Ctx) -> List[Violation]:
    bad = c02_state(ctx.post)
    if not bad:
        return []
    # which vehicle changed activity in this step (discriminator)
    changed = sorted(
        {
            (sname(ctx.pre.vehicles[vid]) if vid in ctx.pre.vehicles else "-") + ">" + sname(v)
            for vid, v in ctx.post.vehicles.items()
            if vid not in ctx.pre.vehicles or sname(ctx.pre.vehicles[vid]) != sname(v)
        }
    )
    return [Violation("C02", c, d + (",".join(changed),), m) for c, d, m in bad]


def c02_initial(world, sim) -> List[Violation]:
    return [Violation("C02", c, d + ("initial",), m) for c, d, m in c02_state(sim)]


# ---------------------------------------------------------------------------------------------------
# C07 -- activity consistent with location


def c07_state(sim) -> List[Tuple[str, tuple, str]]:
    out = []
    for vid, v in sim.vehicles.items():
        s = v.vehicle_state
        n = s.__class__.__name__
        if n in ("ChargingStation", "ChargeQueueing"):
            st = sim.stations.get(s.station_id)
            if st is None or st.geoid != v.geoid:
                out.append(("at_station", (n,), f"vehicle {vid} is {n} at {s.station_id} but stands on {v.geoid} (station on {st.geoid if st else None})"))
        elif n in ("ReserveBase", "ChargingBase"):
            b = sim.bases.get(s.base_id)
            if b is None or b.geoid != v.geoid:
                out.append(("at_base", (n,), f"vehicle {vid} is {n} at {s.base_id} but stands on {v.geoid} (base on {b.geoid if b else None})"))
        if hasattr(s, "route") and n in TRAVEL and not n.endswith("PoolingTrip"):
            route = s.route
            if route:
                if route[0].start != v.geoid:
                    out.append(("route_start", (n,), f"vehicle {vid} {n}: route starts on {route[0].start}, vehicle on {v.geoid}"))
                for a, b2 in zip(route, route[1:]):
                    if a.end != b2.start:
                        out.append(("route_joined", (n,), f"vehicle {vid} {n}: links {a.link_id} and {b2.link_id} do not join"))
                        break
                target = None
                if n == "DispatchTrip":
                    r = sim.requests.get(s.request_id)
                    target = r.origin if r is not None else None
                elif n == "ServicingTrip":
                    target = s.request.destination
                elif n == "DispatchStation":
                    st = sim.stations.get(s.station_id)
                    target = st.geoid if st is not None else "missing"
                elif n == "DispatchBase":
                    b = sim.bases.get(s.base_id)
                    target = b.geoid if b is not None else "missing"
                if target is not None and route[-1].end != target:
                    out.append(("route_end", (n,), f"vehicle {vid} {n}: route ends on {route[-1].end}, target on {target}"))
    return out


def c07_transition(ctx: Ctx) -> List[Violation]:
    out = []
    for c, d, m in c07_state(ctx.post):
        vid = m.split()[1]
        out.append(Violation("C07", c, d + (instr_kind(ctx, vid),), m))
    # pickups only at the origin, drop-offs only at the destination
    for r in ctx.of_type("PICKUP_REQUEST_EVENT"):
        req = ctx.pre.requests.get(r["request_id"])
        if req is None:
            # admitted and picked up in the same step: take it from the world's spec
            spec = ctx.world.request_specs.get(r["request_id"])
            origin = spec["origin"] if spec else None
        else:
            origin = req.origin
        if origin is not None and r["geoid"] != origin:
            out.append(Violation("C07", "pickup_place", (), f"request {r['request_id']} picked up on {r['geoid']}, origin {origin}"))
        ctx.cov["c07:pickup"] += 1
    for r in ctx.of_type("DROPOFF_REQUEST_EVENT"):
        spec = ctx.world.request_specs.get(r["request_id"])
        if spec and r["geoid"] != spec["destination"]:
            out.append(Violation("C07", "dropoff_place", (), f"request {r['request_id']} dropped on {r['geoid']}, destination {spec['destination']}"))
        ctx.cov["c07:dropoff"] += 1
    return out


def c07_initial(world, sim) -> List[Violation]:
    return [Violation("C07", c, d + ("initial",), m) for c, d, m in c07_state(sim)]


# ---------------------------------------------------------------------------------------------------
# C08 -- indexes (as an FSX monitor)


def c08_transition(ctx: Ctx) -> List[Violation]:
    out = []
    for name, kind, cell, have, want in index_mismatches(ctx.post):
        out.append(Violation("C08", "index", (name[0], name.split("_")[1], kind), f"{name}[{cell}] = {have}, entities say {want}"))
    for kind, pre_c, post_c in (("station", ctx.pre.stations, ctx.post.stations), ("base", ctx.pre.bases, ctx.post.bases)):
        for eid, e in post_c.items():
            if eid in pre_c and pre_c[eid].geoid != e.geoid:
                out.append(Violation("C08", "moved", (kind,), f"{kind} {eid} moved from {pre_c[eid].geoid} to {e.geoid}"))
    return out


def c08_initial(world, sim) -> List[Violation]:
    return [
        Violation("C08", "index", (name[0], name.split("_")[1], kind, "initial"), f"{name}[{cell}] = {have}, entities say {want}")
        for name, kind, cell, have, want in index_mismatches(sim)
    ]


# ---------------------------------------------------------------------------------------------------
# C17 -- dispatched_vehicle really on its way


def c17_state(sim) -> List[Tuple[str, tuple, str]]:
    out = []
    for rid, r in sim.requests.items():
        vid = r.dispatched_vehicle
        if vid is None:
            continue
        v = sim.vehicles.get(vid)
        if v is None:
            out.append(("stale_record", ("missing_vehicle",), f"request {rid} records dispatched vehicle {vid} which does not exist"))
            continue
        s = v.vehicle_state
        if s.__class__.__name__ not in ("DispatchTrip", "DispatchPoolingTrip") or getattr(s, "request_id", rid) != rid:
            out.append(
                (
                    "stale_record",
                    (s.__class__.__name__,),
                    f"request {rid} records dispatched vehicle {vid}, but {vid} is {s.__class__.__name__}"
                    + (f" for {s.request_id}" if hasattr(s, "request_id") else ""),
                )
            )
    return out


def c17_transition(ctx: Ctx) -> List[Violation]:
    out = []
    for c, d, m in c17_state(ctx.post):
        vid = m.split("dispatched vehicle ")[1].split(",")[0].split()[0]
        pre_v = ctx.pre.vehicles.get(vid)
        out.append(Violation("C17", c, d + (sname(pre_v) if pre_v else "-", instr_kind(ctx, vid)), m))
    # a vehicle travelling to a request is recorded by it (the converse direction; needed for "offered again")
    for vid, v in ctx.post.vehicles.items():
        s = v.vehicle_state
        if s.__class__.__name__ == "DispatchTrip":
            ctx.cov["c17:dispatchtrip_state"] += 1
            r = ctx.post.requests.get(s.request_id)
            if r is not None and r.dispatched_vehicle is None:
                out.append(
                    Violation("C17", "unrecorded_vehicle", (instr_kind(ctx, vid),), f"vehicle {vid} travels to request {s.request_id} whose record is empty")
                )
    return out


def c17_builtin_only(ctx: Ctx) -> List[Violation]:
    """under the built-in dispatcher alone at most one vehicle travels to a request"""
    if any(e[0] == "I" for e in ctx.events):
        return []
    cnt: Counter = Counter()
    for v in ctx.post.vehicles.values():
        s = v.vehicle_state
        if s.__class__.__name__ == "DispatchTrip":
            cnt[s.request_id] += 1
    out = []
    for rid, n in cnt.items():
        if n > 1 and not ctx.hv_post_has_controller():
            out.append(Violation("C17", "two_vehicles", (), f"{n} vehicles travel to request {rid} under the built-in dispatcher"))
    return out


def c17_initial(world, sim) -> List[Violation]:
    return [Violation("C17", c, d + ("initial",), m) for c, d, m in c17_state(sim)]


# ---------------------------------------------------------------------------------------------------
# coverage accounting (never a violation): activity x instruction x outcome, default transitions


def cov_matrix(ctx: Ctx) -> List[Violation]:
    addressed = addressed_by_controller(ctx)
    applied = ctx.instructed()
    for vid, post_v in ctx.post.vehicles.items():
        pre_v = ctx.pre.vehicles.get(vid)
        if pre_v is None:
            continue
        a, b = sname(pre_v), sname(post_v)
        if vid in addressed:
            kind = addressed[vid][1]
            won = applied.get(vid, {}).get("instruction_type", "") == kind + "Instruction"
            ctx.cov[f"instr:{a}:{kind}:{b}" + ("" if won else ":overridden")] += 1
        elif vid in applied:
            ctx.cov[f"auto:{a}:{applied[vid]['instruction_type'][:-11]}:{b}"] += 1
        elif a != b:
            ctx.cov[f"default:{a}>{b}"] += 1
    for e in ctx.events:
        if e[0] != "I":
            ctx.cov[f"env:{e[0]}"] += 1
    return []


def outcome_vector(ctx: Ctx):
    return tuple(sorted((vid, sname(v)) for vid, v in ctx.post.vehicles.items())) + (len(ctx.post.requests),)
