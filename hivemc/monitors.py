"""
Property monitors for FSX: functions (ctx) -> [Violation] evaluated on every explored transition,
plus (world, sim) -> [Violation] evaluated on every initial state.

A monitor fires on the transition that *creates* an inconsistency (the explorer prunes the post-state).
Signatures carry the discriminators that the known-findings file matches on.
"""
from __future__ import annotations

from collections import Counter
from typing import Any, Dict, List, Optional, Tuple

import h3

from .canon import index_mismatches
from .fsx import Ctx, Violation

TRAVEL = ("DispatchTrip", "ServicingTrip", "DispatchStation", "DispatchBase", "Repositioning",
          "DispatchPoolingTrip", "ServicingPoolingTrip")


def sname(v) -> str:
    return v.vehicle_state.__class__.__name__


def instr_kind(ctx: Ctx, vid: str) -> str:
    r = ctx.instructed().get(vid)
    return r["instruction_type"] if r else "none"


def addressed_by_controller(ctx: Ctx) -> Dict[str, tuple]:
    return {e[2]: e for e in ctx.events if e[0] == "I"}


# ---------------------------------------------------------------------------------------------------
# C02 -- plug / queue / stall counters


def c02_state(sim) -> List[Tuple[str, tuple, str]]:
    """returns [(clause, discriminators, message)]"""
    out = []
    charging: Counter = Counter()
    queueing: Counter = Counter()
    parked: Counter = Counter()
    for v in sim.vehicles.values():
        s = v.vehicle_state
        n = s.__class__.__name__
        if n == "ChargingStation":
            charging[(s.station_id, s.charger_id)] += 1
        elif n == "ChargingBase":
            parked[s.base_id] += 1
            b = sim.bases.get(s.base_id)
            if b is not None and b.station_id is not None:
                charging[(b.station_id, s.charger_id)] += 1
        elif n == "ChargeQueueing":
            queueing[(s.station_id, s.charger_id)] += 1
        elif n == "ReserveBase":
            parked[s.base_id] += 1
    for sid, st in sim.stations.items():
        for cid, cs in st.state.items():
            if not (0 <= cs.available_chargers <= cs.total_chargers):
                out.append(("plug_range", (cid,), f"station {sid} plug {cid}: available={cs.available_chargers} total={cs.total_chargers}"))
            used = cs.total_chargers - cs.available_chargers
            if used != charging.get((sid, cid), 0):
                out.append(
                    (
                        "plug_count",
                        (cid, "more_in_use_than_vehicles" if used > charging.get((sid, cid), 0) else "fewer_in_use_than_vehicles"),
                        f"station {sid} plug {cid}: installed-free={used} but {charging.get((sid, cid), 0)} vehicle(s) charging there",
                    )
                )
            if cs.enqueued_vehicles != queueing.get((sid, cid), 0):
                out.append(
                    (
                        "queue_count",
                        (cid, "counter_high" if cs.enqueued_vehicles > queueing.get((sid, cid), 0) else "counter_low"),
                        f"station {sid} plug {cid}: enqueued={cs.enqueued_vehicles} but {queueing.get((sid, cid), 0)} vehicle(s) queueing",
                    )
                )
    # a plug type that is not installed has "installed = free = 0": nobody can be charging on it
    for (sid, cid), n in charging.items():
        st = sim.stations.get(sid)
        if st is None or cid not in st.state:
            out.append(("plug_count", (cid, "charging_on_plug_not_installed"), f"{n} vehicle(s) charging at station {sid} on plug type {cid}, which is not installed there"))
    # ... and nobody can be waiting for one: the station has no counter for it
    for (sid, cid), n in queueing.items():
        st = sim.stations.get(sid)
        if st is None or cid not in st.state:
            out.append(("queue_count", (cid, "queueing_for_plug_not_installed"), f"{n} vehicle(s) queueing at station {sid} for plug type {cid}, which is not installed there (the station keeps no waiting counter for it)"))
    for bid, b in sim.bases.items():
        if not (0 <= b.available_stalls <= b.total_stalls):
            out.append(("stall_range", (), f"base {bid}: available={b.available_stalls} total={b.total_stalls}"))
        used = b.total_stalls - b.available_stalls
        if used != parked.get(bid, 0):
            out.append(
                (
                    "stall_count",
                    ("more_in_use_than_vehicles" if used > parked.get(bid, 0) else "fewer_in_use_than_vehicles",),
                    f"base {bid}: total-free={used} but {parked.get(bid, 0)} vehicle(s) parked or charging there",
                )
            )
    return out


def c02_transition(ctx: Ctx) -> List[Violation]:
    for v in ctx.post.vehicles.values():
        if sname(v) == "ChargeQueueing" and sum(v.energy.values()) <= 0:
            ctx.cov["c02:queued_vehicle_empty"] += 1
    for st in ctx.post.stations.values():
        for cs in st.state.values():
            if cs.total_chargers - cs.available_chargers >= 2 or cs.enqueued_vehicles >= 2:
                ctx.cov["c02:two_holders"] += 1
    for b in ctx.post.bases.values():
        if b.total_stalls - b.available_stalls >= 2:
            ctx.cov["c02:two_holders"] += 1
    if any(e[0] in ("P", "T") for e in ctx.events) and any(sname(v) == "ChargeQueueing" for v in ctx.pre.vehicles.values()):
        ctx.cov["c02:counters_rewritten_while_queued"] += 1  # a tariff row / a re-rating lands while a vehicle waits in a queue
    bad = c02_state(ctx.post)
    if not bad:
        return []
    # which vehicle changed activity in this step (discriminator)
    changed = sorted(
        {
            (sname(ctx.pre.vehicles[vid]) if vid in ctx.pre.vehicles else "-") + ">" + sname(v)
            for vid, v in ctx.post.vehicles.items()
            if vid not in ctx.pre.vehicles or sname(ctx.pre.vehicles[vid]) != sname(v)
        }
    )
    return [Violation("C02", c, d, m + f" (activity changes in this step: {', '.join(changed) or 'none'})") for c, d, m in bad]


def c02_initial(world, sim) -> List[Violation]:
    return [Violation("C02", c, d + ("initial",), m) for c, d, m in c02_state(sim)]


# ---------------------------------------------------------------------------------------------------
# C07 -- activity consistent with location


def c07_state(sim) -> List[Tuple[str, tuple, str]]:
    out = []
    for vid, v in sim.vehicles.items():
        s = v.vehicle_state
        n = s.__class__.__name__
        if n in ("ChargingStation", "ChargeQueueing"):
            st = sim.stations.get(s.station_id)
            if st is None or st.geoid != v.geoid:
                out.append(("at_station", (n,), f"vehicle {vid} is {n} at {s.station_id} but stands on {v.geoid} (station on {st.geoid if st else None})"))
        elif n in ("ReserveBase", "ChargingBase"):
            b = sim.bases.get(s.base_id)
            if b is None or b.geoid != v.geoid:
                out.append(("at_base", (n,), f"vehicle {vid} is {n} at {s.base_id} but stands on {v.geoid} (base on {b.geoid if b else None})"))
        if hasattr(s, "route") and n in TRAVEL and not n.endswith("PoolingTrip"):
            route = s.route
            if route:
                if route[0].start != v.geoid:
                    out.append(("route_start", (n,), f"vehicle {vid} {n}: route starts on {route[0].start}, vehicle on {v.geoid}"))
                for a, b2 in zip(route, route[1:]):
                    if a.end != b2.start:
                        out.append(("route_joined", (n,), f"vehicle {vid} {n}: links {a.link_id} and {b2.link_id} do not join"))
                        break
                target = None
                if n == "DispatchTrip":
                    r = sim.requests.get(s.request_id)
                    target = r.origin if r is not None else None
                elif n == "ServicingTrip":
                    target = s.request.destination
                elif n == "DispatchStation":
                    st = sim.stations.get(s.station_id)
                    target = st.geoid if st is not None else "missing"
                elif n == "DispatchBase":
                    b = sim.bases.get(s.base_id)
                    target = b.geoid if b is not None else "missing"
                if target is not None and route[-1].end != target:
                    out.append(("route_end", (n,), f"vehicle {vid} {n}: route ends on {route[-1].end}, target on {target}"))
    return out


def c07_transition(ctx: Ctx) -> List[Violation]:
    out = []
    for c, d, m in c07_state(ctx.post):
        vid = m.split()[1]
        out.append(Violation("C07", c, d + (instr_kind(ctx, vid),), m))
    # pickups only at the origin, drop-offs only at the destination
    for r in ctx.of_type("PICKUP_REQUEST_EVENT"):
        req = ctx.pre.requests.get(r["request_id"])
        if req is None:
            # admitted and picked up in the same step: take it from the world's spec
            spec = ctx.world.request_specs.get(r["request_id"])
            origin = ctx.world.rn.position_from_geoid(spec["origin"]).geoid if spec else None
        else:
            origin = req.origin
        if origin is not None and r["geoid"] != origin:
            out.append(Violation("C07", "pickup_place", (), f"request {r['request_id']} picked up on {r['geoid']}, origin {origin}"))
        ctx.cov["c07:pickup"] += 1
    for r in ctx.of_type("DROPOFF_REQUEST_EVENT"):
        dest = ctx.world.dest_cell(r["request_id"])
        if dest is not None and r["geoid"] != dest:
            out.append(Violation("C07", "dropoff_place", (), f"request {r['request_id']} dropped on {r['geoid']}, destination {dest}"))
        ctx.cov["c07:dropoff"] += 1
    return out


def c07_initial(world, sim) -> List[Violation]:
    return [Violation("C07", c, d + ("initial",), m) for c, d, m in c07_state(sim)]


# ---------------------------------------------------------------------------------------------------
# C08 -- indexes (as an FSX monitor)


def c08_transition(ctx: Ctx) -> List[Violation]:
    out = []
    for name, kind, cell, have, want in index_mismatches(ctx.post):
        out.append(Violation("C08", "index", (name[0], name.split("_")[1], kind), f"{name}[{cell}] = {have}, entities say {want}"))
    for kind, pre_c, post_c in (("station", ctx.pre.stations, ctx.post.stations), ("base", ctx.pre.bases, ctx.post.bases)):
        for eid, e in post_c.items():
            if eid in pre_c and pre_c[eid].geoid != e.geoid:
                out.append(Violation("C08", "moved", (kind,), f"{kind} {eid} moved from {pre_c[eid].geoid} to {e.geoid}"))
    return out


def c08_initial(world, sim) -> List[Violation]:
    return [
        Violation("C08", "index", (name[0], name.split("_")[1], kind, "initial"), f"{name}[{cell}] = {have}, entities say {want}")
        for name, kind, cell, have, want in index_mismatches(sim)
    ]


# ---------------------------------------------------------------------------------------------------
# C17 -- dispatched_vehicle really on its way


def c17_state(sim) -> List[Tuple[str, tuple, str]]:
    out = []
    for rid, r in sim.requests.items():
        vid = r.dispatched_vehicle
        if vid is None:
            continue
        v = sim.vehicles.get(vid)
        if v is None:
            out.append(("stale_record", ("missing_vehicle",), f"request {rid} records dispatched vehicle {vid} which does not exist"))
            continue
        s = v.vehicle_state
        if s.__class__.__name__ not in ("DispatchTrip", "DispatchPoolingTrip") or getattr(s, "request_id", rid) != rid:
            out.append(
                (
                    "stale_record",
                    (s.__class__.__name__,),
                    f"request {rid} records dispatched vehicle {vid}, but {vid} is {s.__class__.__name__}"
                    + (f" for {s.request_id}" if hasattr(s, "request_id") else ""),
                )
            )
    return out


def c17_transition(ctx: Ctx) -> List[Violation]:
    out = []
    for c, d, m in c17_state(ctx.post):
        vid = m.split("dispatched vehicle ")[1].split(",")[0].split()[0]
        pre_v = ctx.pre.vehicles.get(vid)
        out.append(Violation("C17", c, d + (sname(pre_v) if pre_v else "-", instr_kind(ctx, vid)), m))
    for vid, v in ctx.post.vehicles.items():
        if sname(v) == "DispatchTrip":
            ctx.cov["c17:dispatchtrip_state"] += 1
    # a dispatch accepted in THIS step is on record at the end of the step, unless a later dispatch of the same step (instructions
    # are applied in descending vehicle-id order) took the request over: no other vehicle's instruction may wipe the record
    applied = ctx.instructed()
    fresh = {}
    for vid, rep in applied.items():
        if rep.get("instruction_type") == "DispatchTripInstruction":
            v, pre_v = ctx.post.vehicles.get(vid), ctx.pre.vehicles.get(vid)
            if v is not None and sname(v) == "DispatchTrip" and (pre_v is None or getattr(pre_v.vehicle_state, "instance_id", None) != v.vehicle_state.instance_id):
                fresh[vid] = v.vehicle_state.request_id
    for vid, rid in fresh.items():
        r = ctx.post.requests.get(rid)
        if r is None:
            continue
        later_takers = [o for o, orid in fresh.items() if orid == rid and o < vid]
        if later_takers:
            continue
        ctx.cov["c17:fresh_dispatch"] += 1
        if r.dispatched_vehicle != vid:
            others = sorted(o for o in applied if o != vid)
            out.append(Violation("C17", "fresh_dispatch_not_on_record", (str(r.dispatched_vehicle is None), ",".join(sorted({applied[o]["instruction_type"] for o in others})) or "-"),
                                 f"vehicle {vid} was dispatched to request {rid} in this step and is travelling to it, but the request records {r.dispatched_vehicle!r} (other instructions of the step: {[(o, applied[o]['instruction_type']) for o in others]})"))
    return out


def c17_builtin_only(ctx: Ctx) -> List[Violation]:
    """under the built-in dispatcher alone (world without controller menu) at most one vehicle travels to a request,
    and a waiting request without a record is offered again as soon as an eligible vehicle exists"""
    cnt: Counter = Counter()
    for v in ctx.post.vehicles.values():
        s = v.vehicle_state
        if s.__class__.__name__ == "DispatchTrip":
            cnt[s.request_id] += 1
    out = []
    for rid, n in cnt.items():
        if n > 1:
            out.append(Violation("C17", "two_vehicles", (), f"{n} vehicles travel to request {rid} under the built-in dispatcher"))
        ctx.cov["c17:vehicle_under_way_at_step_boundary"] += 1
    # offered again: ask the real dispatcher on the post-state
    disp = [g for g in ctx.world.builtin_generators if g.__class__.__name__ == "Dispatcher"]
    if disp:
        _, instrs = disp[0].generate_instructions(ctx.post, ctx.env)
        offered = {i.request_id for i in instrs}
        fleets = sorted(ctx.env.fleet_ids) or [None]
        for f in fleets:
            eligible = [
                v for v in ctx.post.vehicles.values()
                if sname(v) in ("Idle", "Repositioning") and v.driver_state.available and sum(v.energy.values()) > 0
                and (f is None or f in v.membership.memberships)
            ]
            open_reqs = [
                r for r in ctx.post.requests.values()
                if r.dispatched_vehicle is None and (f is None or f in r.membership.memberships)
            ]
            if open_reqs and eligible:
                ctx.cov["c17:open_request_offered"] += 1
                n = len([r for r in open_reqs if r.id in offered])
                if n < min(len(eligible), len(open_reqs)):
                    out.append(Violation("C17", "not_offered_again", (), f"{len(open_reqs)} waiting request(s) of fleet {f} without assigned vehicle, {len(eligible)} eligible vehicle(s), but the dispatcher offers only {n}"))
    return out


def c17_initial(world, sim) -> List[Violation]:
    return [Violation("C17", c, d + ("initial",), m) for c, d, m in c17_state(sim)]


# ---------------------------------------------------------------------------------------------------
# coverage accounting (never a violation): activity x instruction x outcome, default transitions


def cov_matrix(ctx: Ctx) -> List[Violation]:
    addressed = addressed_by_controller(ctx)
    applied = ctx.instructed()
    for vid, post_v in ctx.post.vehicles.items():
        pre_v = ctx.pre.vehicles.get(vid)
        if pre_v is None:
            continue
        a, b = sname(pre_v), sname(post_v)
        if vid in addressed:
            kind = addressed[vid][1]
            won = applied.get(vid, {}).get("instruction_type", "") == {"Pool": "DispatchPoolingTrip"}.get(kind, kind) + "Instruction"
            ctx.cov[f"instr:{a}:{kind}:{b}" + ("" if won else ":overridden")] += 1
        elif vid in applied:
            ctx.cov[f"auto:{a}:{applied[vid]['instruction_type'][:-11]}:{b}"] += 1
        elif a != b:
            ctx.cov[f"default:{a}>{b}"] += 1
    for e in ctx.events:
        if e[0] != "I":
            ctx.cov[f"env:{e[0]}"] += 1
    # a vehicle object that comes out of a step untouched: either its activity's update is a no-op by design, or the update
    # raised an error and was discarded (logged by the library, state kept) -- the symptom every "stuck vehicle" defect showed
    for vid, post_v in ctx.post.vehicles.items():
        if ctx.pre.vehicles.get(vid) is post_v:
            ctx.cov[f"untouched:{sname(post_v)}"] += 1
    return []


def outcome_vector(ctx: Ctx):
    return tuple(sorted((vid, sname(v)) for vid, v in ctx.post.vehicles.items())) + (len(ctx.post.requests),)


# ---------------------------------------------------------------------------------------------------
# C03 -- every request resolved exactly once (world must provide the status history variable of w_req)

_KWH_PER_KM: dict = {}


def energy_per_km(env, mech_id: str, speed: float = 40.0) -> float:
    """consumption of this powertrain on a 1 km link at `speed`, asked of the mechatronics once"""
    k = (id(env.mechatronics), mech_id, speed)
    if k not in _KWH_PER_KM:
        from nrel.hive.model.roadnetwork.linktraversal import LinkTraversal
        from nrel.hive.model.vehicle.mechatronics.powertrain.powertrain import Powertrain  # noqa: F401

        m = env.mechatronics[mech_id]
        cost = m.powertrain.energy_cost((LinkTraversal("x", "a", "b", 1.0, speed),))
        from nrel.hive.util.units import get_unit_conversion, Unit

        unit = Unit.KILOWATT_HOUR if mech_id != "ice" and hasattr(m, "battery_capacity_kwh") else Unit.GALLON_GASOLINE
        _KWH_PER_KM[k] = cost * get_unit_conversion(m.powertrain.energy_units, unit)
    return _KWH_PER_KM[k]


def route_km(route) -> float:
    return sum(l.distance_km for l in route)


def out_of_energy_plausible(ctx: Ctx, vid: str) -> bool:
    """could the pre-state vehicle have lacked the energy for this step's movement? (independent estimate:
    consumption per km of its powertrain x the distance it could cover in one step along its route)"""
    v = ctx.pre.vehicles[vid]
    s = v.vehicle_state
    route = getattr(s, "route", ())
    step_s = ctx.pre.sim_timestep_duration_seconds
    speeds = [l.speed_kmph for l in route if l.speed_kmph > 0] or [40.0]
    reach = max(speeds) * step_s / 3600.0
    dist = min(route_km(route), reach) if route else reach
    need = energy_per_km(ctx.env, v.mechatronics_id, max(speeds)) * dist
    have = sum(v.energy.values())
    return have <= need * 1.02 + 1e-9


def _status(hv, rid):
    return dict(hv[1]).get(rid, "unseen")


def c03_transition(ctx: Ctx) -> List[Violation]:
    out: List[Violation] = []
    released_post = ctx.hv_post[0]
    pickups = Counter()
    pick_by = {}
    for r in ctx.of_type("PICKUP_REQUEST_EVENT"):
        pickups[r["request_id"]] += 1
        pick_by[r["request_id"]] = r
    cancels = Counter(r["request_id"] for r in ctx.of_type("CANCEL_REQUEST_EVENT"))
    drops = Counter()
    drop_by = {}
    for r in ctx.of_type("DROPOFF_REQUEST_EVENT"):
        drops[r["request_id"]] += 1
        drop_by[r["request_id"]] = r
    adds = Counter(r["request_id"] for r in ctx.of_type("ADD_REQUEST_EVENT"))
    instructed = ctx.instructed()
    carrying_post = {}
    for vid, v in ctx.post.vehicles.items():
        s = v.vehicle_state
        if s.__class__.__name__ == "ServicingTrip":
            carrying_post[s.request.id] = vid

    for e in ctx.events:
        if e[0] == "R" and adds[e[1]] != 1:
            out.append(Violation("C03", "admission", (str(adds[e[1]]),), f"request {e[1]} released now, {adds[e[1]]} add event(s)"))

    for rid in sorted(released_post):
        a, b = _status(ctx.hv_pre, rid), _status(ctx.hv_post, rid)
        spec = ctx.world.request_specs[rid]
        if a in ("dropped", "cancelled", "stranded", "vanished"):
            if pickups[rid] or cancels[rid] or drops[rid] or adds[rid] or rid in ctx.post.requests or rid in carrying_post:
                out.append(Violation("C03", "after_resolution", (a,), f"request {rid} was {a} and is referred to again"))
            continue
        if a in ("unseen", "waiting"):
            if b == "waiting":
                if pickups[rid] or cancels[rid] or drops[rid]:
                    out.append(Violation("C03", "event_while_waiting", (), f"request {rid} still waiting but pickup/cancel/drop-off event filed"))
                continue
            # left the waiting set
            if b == "vanished":
                out.append(Violation("C03", "vanished", (), f"request {rid} left the simulation without pickup or cancel event"))
                continue
            if pickups[rid] + cancels[rid] != 1:
                out.append(Violation("C03", "resolved_not_once", (f"p{pickups[rid]}c{cancels[rid]}",), f"request {rid}: {pickups[rid]} pickup and {cancels[rid]} cancel events in the step it was resolved"))
                continue
            if cancels[rid]:
                ctx.cov["c03:cancel"] += 1
                if any(getattr(v.vehicle_state, "request_id", None) == rid for v in ctx.pre.vehicles.values()):
                    ctx.cov["c03:cancel_while_vehicle_en_route"] += 1
                if rid in carrying_post:
                    out.append(Violation("C03", "cancelled_and_carried", (), f"request {rid} cancelled but on board of {carrying_post[rid]}"))
                continue
            # picked up
            ctx.cov["c03:pickup"] += 1
            pr = pick_by[rid]
            vid = pr["vehicle_id"]
            if b.startswith("onboard:") and b.split(":", 1)[1] != vid:
                out.append(Violation("C03", "pickup_vehicle", (), f"request {rid}: pickup event names {vid}, carried by {b}"))
            if b == "stranded":
                ctx.cov["c03:stranded"] += 1
                if not out_of_energy_plausible(ctx, vid):
                    out.append(Violation("C03", "diverted", ("OutOfService", instr_kind(ctx, vid)), f"vehicle {vid} picked up {rid} and went out of service with energy left"))
            if b == "dropped":
                ctx.cov["c03:pickup_and_dropoff_same_step"] += 1
                if drops[rid] != 1:
                    out.append(Violation("C03", "dropoff_count", (str(drops[rid]), "same_step"), f"request {rid} picked up and gone in one step with {drops[rid]} drop-off events"))
            # fare credited exactly once to the vehicle that picked it up
            pre_v, post_v = ctx.pre.vehicles.get(vid), ctx.post.vehicles.get(vid)
            if pre_v is not None and post_v is not None:
                fares = sum(float(p["price"]) for p in ctx.of_type("PICKUP_REQUEST_EVENT") if p["vehicle_id"] == vid)
                paid = sum(float(c["price"]) for c in ctx.of_type("VEHICLE_CHARGE_EVENT") if c["vehicle_id"] == vid)
                d = post_v.balance - pre_v.balance
                if abs(d - (fares - paid)) > 1e-9:
                    out.append(Violation("C03", "fare", (), f"vehicle {vid} balance changed by {d}, fares {fares} - payments {paid}"))
                if float(pr["price"]) <= 0:
                    out.append(Violation("C03", "fare_zero", (), f"request {rid} picked up with fare {pr['price']}"))
            for ovid, ov in ctx.post.vehicles.items():
                if ovid != vid and ovid in ctx.pre.vehicles:
                    ofares = sum(float(p["price"]) for p in ctx.of_type("PICKUP_REQUEST_EVENT") if p["vehicle_id"] == ovid)
                    opaid = sum(float(c["price"]) for c in ctx.of_type("VEHICLE_CHARGE_EVENT") if c["vehicle_id"] == ovid)
                    if abs((ov.balance - ctx.pre.vehicles[ovid].balance) - (ofares - opaid)) > 1e-9:
                        out.append(Violation("C03", "fare_other", (), f"vehicle {ovid} balance changed without a pickup of its own"))
            continue
        if a.startswith("onboard:"):
            vid = a.split(":", 1)[1]
            if pickups[rid] or cancels[rid]:
                out.append(Violation("C03", "event_while_onboard", (), f"request {rid} on board of {vid}: pickup/cancel event filed again"))
            if b == a:
                if drops[rid]:
                    out.append(Violation("C03", "dropoff_but_onboard", (), f"request {rid} still on board of {vid} but drop-off event filed"))
                continue
            if b.startswith("onboard:"):
                out.append(Violation("C03", "changed_vehicle", (), f"request {rid} moved from {a} to {b}"))
                continue
            if b == "dropped":
                ctx.cov["c03:dropoff_later_step"] += 1
                if drops[rid] != 1:
                    out.append(Violation("C03", "dropoff_count", (str(drops[rid]), instr_kind(ctx, vid)), f"request {rid} left vehicle {vid} with {drops[rid]} drop-off events"))
                else:
                    dr = drop_by[rid]
                    if dr["vehicle_id"] != vid:
                        out.append(Violation("C03", "dropoff_vehicle", (), f"request {rid} carried by {vid}, dropped by {dr['vehicle_id']}"))
                    dest = ctx.world.dest_cell(rid)
                    if dr["geoid"] != dest or ctx.post.vehicles[vid].geoid != dest:
                        out.append(Violation("C03", "dropoff_place", (), f"request {rid} dropped on {dr['geoid']}, destination {dest}"))
            elif b == "stranded":
                ctx.cov["c03:stranded"] += 1
                if not out_of_energy_plausible(ctx, vid):
                    out.append(Violation("C03", "diverted", ("OutOfService", instr_kind(ctx, vid)), f"vehicle {vid} carrying {rid} went out of service with energy left"))
    # no instruction can divert a vehicle that is carrying passengers
    for vid, pre_v in ctx.pre.vehicles.items():
        s = pre_v.vehicle_state
        if s.__class__.__name__ == "ServicingPoolingTrip" and len(s.trip_plan) > 0 and len(s.boarded_requests) > 0:
            # pooled passengers on board: the same rule
            post_s = ctx.post.vehicles[vid].vehicle_state
            pn = post_s.__class__.__name__
            if vid in instructed:
                ctx.cov["c03:instruction_to_pooling_vehicle_with_passengers"] += 1
            still = pn == "ServicingPoolingTrip" and set(post_s.boarded_requests.keys()) <= set(s.boarded_requests.keys())
            dropped_all = all(drops[r] == 1 for r in s.boarded_requests.keys()) and pn in ("ServicingPoolingTrip", "Idle")
            if pn == "OutOfService":
                if not out_of_energy_plausible(ctx, vid):
                    out.append(Violation("C03", "diverted", ("OutOfService", instr_kind(ctx, vid), "pooling"), f"vehicle {vid} carrying pooled passengers went out of service with energy left"))
            elif not (still or dropped_all):
                out.append(Violation("C03", "diverted", (pn, instr_kind(ctx, vid), "pooling"), f"vehicle {vid} carrying pooled passengers {sorted(s.boarded_requests.keys())} became {pn}"))
            continue
        if s.__class__.__name__ != "ServicingTrip" or len(s.route) == 0:
            continue
        post_s = ctx.post.vehicles[vid].vehicle_state
        pn = post_s.__class__.__name__
        if vid in instructed:
            ctx.cov["c03:instruction_to_vehicle_with_passengers"] += 1
        if pn == "ServicingTrip":
            if post_s.request.id != s.request.id:
                out.append(Violation("C03", "diverted", ("other_request", instr_kind(ctx, vid)), f"vehicle {vid} swapped passengers"))
            ids_pre = [l.link_id for l in s.route]
            ids_post = [l.link_id for l in post_s.route]
            if ids_post and ids_pre[-len(ids_post):] != ids_post:
                out.append(Violation("C03", "diverted", ("route_changed", instr_kind(ctx, vid)), f"vehicle {vid} route changed while carrying passengers"))
        elif pn == "OutOfService":
            if not out_of_energy_plausible(ctx, vid):
                out.append(Violation("C03", "diverted", ("OutOfService", instr_kind(ctx, vid)), f"vehicle {vid} carrying {s.request.id} went out of service with energy left"))
        elif pn == "Idle" and drops[s.request.id] == 1:
            pass  # arrived and dropped off, default transition in a later step is Idle
        else:
            # left the trip mid-route
            if drops[s.request.id] != 1:
                out.append(Violation("C03", "diverted", (pn, instr_kind(ctx, vid)), f"vehicle {vid} carrying {s.request.id} mid-route became {pn}"))
    return out


# ---------------------------------------------------------------------------------------------------
# C04 -- energy physical and accounted for (per transition, per vehicle)


def _cap(m) -> float:
    return m.tank_capacity_gallons if m.__class__.__name__ == "ICE" else m.battery_capacity_kwh


def _idle_rate(m) -> float:
    return m.idle_gallons_per_hour if m.__class__.__name__ == "ICE" else m.idle_kwh_per_hour


def c04_transition(ctx: Ctx) -> List[Violation]:
    out: List[Violation] = []
    dt = ctx.pre.sim_timestep_duration_seconds
    moves = {}
    for r in ctx.of_type("VEHICLE_MOVE_EVENT"):
        moves.setdefault(r["vehicle_id"], []).append(r)
    charges = {}
    for r in ctx.of_type("VEHICLE_CHARGE_EVENT"):
        charges.setdefault(r["vehicle_id"], []).append(r)
    for vid, b in ctx.post.vehicles.items():
        a = ctx.pre.vehicles.get(vid)
        if a is None:
            continue
        m = ctx.env.mechatronics[a.mechatronics_id]
        cls = m.__class__.__name__
        (et,) = tuple(a.energy.keys())
        l0, l1 = a.energy[et], b.energy[et]
        dg = b.energy_gained[et] - a.energy_gained[et]
        dx = b.energy_expended[et] - a.energy_expended[et]
        pa, pb = sname(a), sname(b)
        if l1 < -1e-12 or l1 > _cap(m) + 1e-9:
            out.append(Violation("C04", "range", (cls, pb), f"vehicle {vid}: level {l1} outside [0, {_cap(m)}]"))
        if abs((l1 - l0) - (dg - dx)) > 1e-9:
            out.append(Violation("C04", "ledger", (cls, pa, pb), f"vehicle {vid}: level changed by {l1 - l0}, gained {dg}, expended {dx}"))
        if dg < -1e-12 or dx < -1e-12:
            out.append(Violation("C04", "ledger_negative", (cls,), f"vehicle {vid}: accumulator decreased"))
        moved = b.geoid != a.geoid or b.distance_traveled_km > a.distance_traveled_km + 1e-12
        if moved:
            ctx.cov[f"c04:moved:{cls}"] += 1
            if l0 > 0 and not dx > 0:
                out.append(Violation("C04", "not_lowered", (cls, "move"), f"vehicle {vid} moved {b.distance_traveled_km - a.distance_traveled_km:.4f} km and expended nothing (level {l0} -> {l1})"))
            if l0 <= 0:
                out.append(Violation("C04", "moved_from_empty", (cls,), f"vehicle {vid} moved with an empty store"))
            if l1 <= 0 and vid not in charges:
                out.append(Violation("C04", "moved_on_empty", (cls, pb), f"vehicle {vid} moved on and ended the step with level {l1} instead of stopping out of service"))
        elif pa == pb and pa in ("Idle", "ChargeQueueing") and vid not in ctx.instructed():
            if b is a:
                # the vehicle's whole update was discarded (an error was returned and logged; this used to happen to a queued
                # vehicle whose plug type it cannot use, see D16): time passed and the vehicle expended nothing
                ctx.cov[f"c04:update_discarded:{pa}"] += 1
                if _idle_rate(m) > 0 and l0 > 0:
                    out.append(Violation("C04", "not_lowered", (cls, pa, "update_discarded"), f"vehicle {vid} spent {dt} s in {pa} but its whole update was discarded (an error inside the update): level stayed {l1}"))
            elif _idle_rate(m) > 0 and l0 > 0:
                ctx.cov[f"c04:idled:{cls}:{pa}"] += 1
                if not l1 < l0:
                    out.append(Violation("C04", "not_lowered", (cls, pa), f"vehicle {vid} idled {dt} s in {pa} and its level stayed {l1}"))
        if pb == "OutOfService" and pa != "OutOfService" and instr_kind(ctx, vid) != "OutOfServiceInstruction":
            if pa in TRAVEL:
                ctx.cov[f"c04:ran_dry:{cls}:{pa}"] += 1
                if moved:
                    out.append(Violation("C04", "moved_without_energy", (cls, pa), f"vehicle {vid} went out of service for lack of energy but moved"))
        if vid in charges:
            ctx.cov[f"c04:charged:{cls}:{pb}"] += 1
            tot = sum(float(r["energy"]) for r in charges[vid])
            if l1 < l0 - 1e-12:
                out.append(Violation("C04", "charge_lowered", (cls,), f"vehicle {vid}: level fell {l0} -> {l1} in a charging step"))
            for r in charges[vid]:
                st = ctx.pre.stations.get(r["station_id"])
                cs = st.state.get(r["charger_id"]) if st is not None else None
                if cs is not None:
                    lim = cs.charger.rate * dt / 3600.0 if cs.charger.energy_type.name == "ELECTRIC" else cs.charger.rate * dt
                    if float(r["energy"]) > lim + 1e-9:
                        out.append(Violation("C04", "exceeds_plug", (cls, r["charger_id"]), f"vehicle {vid}: {r['charger_id']} added {float(r['energy']):.6f} in {dt} s, the plug delivers at most {lim:.6f}"))
            if abs(tot - dg) > 1e-9:
                out.append(Violation("C04", "gain_booked", (cls,), f"vehicle {vid}: charge events {tot}, gained {dg}"))
        elif dg > 1e-12:
            out.append(Violation("C04", "gain_without_charge_event", (cls, pb), f"vehicle {vid} gained {dg} without a charge event"))
    return out


# ---------------------------------------------------------------------------------------------------
# C05 -- energy and money conserved between vehicles and stations (per transition; sums follow by induction)


def expected_tariffs(ctx: Ctx) -> Dict[Tuple[str, str], float]:
    """tariff of every (station, plug) during this step: the pre-state's, with this step's price rows applied"""
    t = {(sid, cid): cs.price_per_kwh for sid, st in ctx.pre.stations.items() for cid, cs in st.state.items()}
    for e in ctx.events:
        if e[0] == "P":
            row = ctx.world.price_rows[e[1]]
            key = (row["station_id"], row["charger_id"])
            if key in t:
                t[key] = float(row["price_kwh"])
    return t


def c05_transition(ctx: Ctx) -> List[Violation]:
    out: List[Violation] = []
    tariffs = expected_tariffs(ctx)
    for key, want in tariffs.items():
        st = ctx.post.stations.get(key[0])
        have = st.state[key[1]].price_per_kwh if st is not None and key[1] in st.state else None
        if have is None or abs(have - want) > 1e-12:
            out.append(Violation("C05", "tariff_table", (key[1],), f"station {key[0]} plug {key[1]}: tariff {have}, expected {want}"))
    charges = ctx.of_type("VEHICLE_CHARGE_EVENT")
    pickups = ctx.of_type("PICKUP_REQUEST_EVENT")
    by_vehicle: Dict[str, list] = {}
    by_station: Dict[str, list] = {}
    for e in charges:
        by_vehicle.setdefault(e["vehicle_id"], []).append(e)
        by_station.setdefault(e["station_id"], []).append(e)
        want = tariffs.get((e["station_id"], e["charger_id"]))
        if want is None:
            out.append(Violation("C05", "unknown_plug", (), f"charge event names plug {e['charger_id']} at {e['station_id']} which is not installed"))
        elif abs(float(e["price"]) - float(e["energy"]) * want) > 1e-9:
            out.append(Violation("C05", "price_not_tariff", (e["charger_id"], e["vehicle_state"]), f"vehicle {e['vehicle_id']} paid {e['price']} for {e['energy']} at tariff {want} ({e['station_id']}/{e['charger_id']})"))
        v = ctx.post.vehicles.get(e["vehicle_id"])
        if v is not None:
            s = v.vehicle_state
            n = s.__class__.__name__
            where = None
            if n == "ChargingStation":
                where = s.station_id
            elif n == "ChargingBase":
                b = ctx.post.bases.get(s.base_id)
                where = b.station_id if b is not None else None
            if where is not None and where != e["station_id"]:
                out.append(Violation("C05", "wrong_station_named", (n,), f"vehicle {v.id} charges at {where} but the event names {e['station_id']}"))
            ctx.cov[f"c05:charge:{n}:{e['charger_id']}"] += 1
            if want:
                ctx.cov["c05:charge_at_nonzero_tariff"] += 1
    for vid, b in ctx.post.vehicles.items():
        a = ctx.pre.vehicles.get(vid)
        if a is None:
            continue
        fares = sum(float(p["price"]) for p in pickups if p["vehicle_id"] == vid)
        paid = sum(float(e["price"]) for e in by_vehicle.get(vid, []))
        d = b.balance - a.balance
        if abs(d - (fares - paid)) > 1e-9:
            out.append(Violation("C05", "vehicle_balance", (sname(b),), f"vehicle {vid}: balance changed by {d}, fares {fares} - charging payments {paid}"))
        if fares:
            ctx.cov["c05:fare"] += 1
        for et in a.energy.keys():
            dg = b.energy_gained[et] - a.energy_gained[et]
            ev = sum(float(e["energy"]) for e in by_vehicle.get(vid, []) if e["energy_units"] == et.units)
            if abs(dg - ev) > 1e-9:
                out.append(Violation("C05", "vehicle_gained", (sname(b),), f"vehicle {vid}: energy_gained changed by {dg}, charge events say {ev}"))
    for sid, b in ctx.post.stations.items():
        a = ctx.pre.stations.get(sid)
        if a is None:
            continue
        got = sum(float(e["price"]) for e in by_station.get(sid, []))
        d = b.balance - a.balance
        if abs(d - got) > 1e-9:
            out.append(Violation("C05", "station_balance", (), f"station {sid}: balance changed by {d}, payments made there {got}"))
        for et in a.energy_dispensed.keys():
            dd = b.energy_dispensed[et] - a.energy_dispensed[et]
            ev = sum(float(e["energy"]) for e in by_station.get(sid, []) if e["energy_units"] == et.units)
            if abs(dd - ev) > 1e-9:
                out.append(Violation("C05", "station_dispensed", (et.name,), f"station {sid}: energy_dispensed[{et.name}] changed by {dd}, charge events there say {ev}"))
    # fleet-wide, per energy type (follows from the above; checked anyway)
    from nrel.hive.model.energy.energytype import EnergyType

    for et in EnergyType:
        g = sum(v.energy_gained.get(et, 0.0) - ctx.pre.vehicles[vid].energy_gained.get(et, 0.0) for vid, v in ctx.post.vehicles.items() if vid in ctx.pre.vehicles)
        dsp = sum(s.energy_dispensed.get(et, 0.0) - ctx.pre.stations[sid].energy_dispensed.get(et, 0.0) for sid, s in ctx.post.stations.items() if sid in ctx.pre.stations)
        if abs(g - dsp) > 1e-9:
            out.append(Violation("C05", "fleet_energy", (et.name,), f"{et.name}: vehicles gained {g}, stations dispensed {dsp}"))
    return out


# ---------------------------------------------------------------------------------------------------
# C19 -- the event log accounts for every state change (on the lines parsed back from event.log)


def _hms(s: str):
    """'H:MM:SS' (possibly 'D day(s), H:MM:SS') -> seconds, or None"""
    try:
        days = 0
        if "day" in s:
            d, s = s.split(",")
            days = int(d.split()[0])
            s = s.strip()
        h, m, sec = s.split(":")
        return days * 86400 + int(h) * 3600 + int(m) * 60 + float(sec)
    except Exception:
        return None


def c19_transition(ctx: Ctx) -> List[Violation]:
    out: List[Violation] = []
    rep = ctx.reports
    lines = getattr(rep, "lines", None)
    if lines is None:
        raise RuntimeError("C19 monitor needs a logging world (w_log)")
    for err in rep.parse_errors:
        out.append(Violation("C19", "unparseable_line", (), f"event.log line cannot be parsed: {err}"))
    by_type: Dict[str, list] = {}
    for ln in lines:
        by_type.setdefault(ln.get("report_type", "?"), []).append(ln)
    step = ctx.pre.sim_timestep_duration_seconds
    timeout = ctx.env.config.sim.request_cancel_time_seconds
    moves, charges = by_type.get("vehicle_move_event", []), by_type.get("vehicle_charge_event", [])
    for vid, b in ctx.post.vehicles.items():
        a = ctx.pre.vehicles.get(vid)
        if a is None:
            continue
        dist = sum(float(m["distance_km"]) for m in moves if m["vehicle_id"] == vid)
        dodo = b.distance_traveled_km - a.distance_traveled_km
        if abs(dist - dodo) > 1e-9:
            out.append(Violation("C19", "move_vs_odometer", (sname(a),), f"vehicle {vid}: move lines sum to {dist} km, odometer grew by {dodo}"))
        if dodo > 0:
            ctx.cov["c19:move"] += 1
            if len([m for m in moves if m["vehicle_id"] == vid]) != 1:
                out.append(Violation("C19", "move_reported_once", (), f"vehicle {vid} moved, {len([m for m in moves if m['vehicle_id'] == vid])} move lines"))
        en = sum(float(c["energy"]) for c in charges if c["vehicle_id"] == vid)
        dg = sum(b.energy_gained[k] - a.energy_gained[k] for k in a.energy_gained.keys())
        if abs(en - dg) > 1e-9:
            out.append(Violation("C19", "charge_vs_gained", (sname(b),), f"vehicle {vid}: charge lines sum to {en}, energy_gained grew by {dg}"))
        lvl = sum(b.energy[k] - a.energy[k] for k in a.energy.keys())
        if dg > 0:
            ctx.cov["c19:charge"] += 1
            n = len([c for c in charges if c["vehicle_id"] == vid])
            if n != 1:
                out.append(Violation("C19", "charge_reported_once", (str(n),), f"vehicle {vid} charged in this step, {n} charge lines"))
    # station load = sum of this step's charge lines there; one line per station
    loads = by_type.get("station_load_event", [])
    for sid in ctx.post.stations:
        mine = [l for l in loads if l["station_id"] == sid]
        if len(mine) != 1:
            out.append(Violation("C19", "station_load_lines", (str(len(mine)),), f"station {sid}: {len(mine)} station_load lines in one step"))
            continue
        want = sum(float(c["energy"]) for c in charges if c["station_id"] == sid)
        if abs(float(mine[0]["energy"]) - want) > 1e-9:
            out.append(Violation("C19", "station_load", (), f"station {sid}: reported load {mine[0]['energy']}, charge lines there sum to {want}"))
        if want > 0:
            ctx.cov["c19:station_load_nonzero"] += 1
    adds, cancels = by_type.get("add_request_event", []), by_type.get("cancel_request_event", [])
    if rep.stats_delta != (len(adds), len(cancels)):
        out.append(Violation("C19", "summary_counts", (), f"summary counters moved by {rep.stats_delta}, log has {len(adds)} add and {len(cancels)} cancel lines"))
    if rep.charge_handler_rows != len(charges):
        out.append(Violation("C19", "charge_handler", (), f"VehicleChargeEventsHandler stored {rep.charge_handler_rows} rows, log has {len(charges)} charge lines"))
    pickups, drops = by_type.get("pickup_request_event", []), by_type.get("dropoff_request_event", [])
    # requests that left the waiting set: exactly one pickup or cancel line
    released_now = {e[1] for e in ctx.events if e[0] == "R"}
    gone = (set(ctx.pre.requests) | released_now) - set(ctx.post.requests)
    for rid in sorted(gone):
        n = len([p for p in pickups if p["request_id"] == rid]) + len([c for c in cancels if c["request_id"] == rid])
        if rid in released_now and rid not in ctx.pre.requests and not any(a["request_id"] == rid for a in adds):
            continue  # never admitted
        if n != 1:
            out.append(Violation("C19", "resolution_lines", (str(n),), f"request {rid} left the waiting set with {n} pickup/cancel lines"))
    for rid in {p["request_id"] for p in pickups} | {c["request_id"] for c in cancels}:
        if rid not in gone:
            out.append(Violation("C19", "resolution_without_change", (), f"pickup/cancel line for {rid} but it did not leave the waiting set"))
    for e in released_now:
        if len([a for a in adds if a["request_id"] == e]) != (1 if (e in ctx.post.requests or e in gone) else 0):
            out.append(Violation("C19", "add_lines", (), f"request {e} released: {len([a for a in adds if a['request_id'] == e])} add lines"))
    # completed trips: one drop-off line
    for vid, a in ctx.pre.vehicles.items():
        s = a.vehicle_state
        b = ctx.post.vehicles[vid].vehicle_state
        if s.__class__.__name__ == "ServicingTrip" and len(s.route) > 0 and b.__class__.__name__ == "ServicingTrip" and len(b.route) == 0:
            n = len([d for d in drops if d["request_id"] == s.request.id and d["vehicle_id"] == vid])
            ctx.cov["c19:dropoff"] += 1
            if n != 1:
                out.append(Violation("C19", "dropoff_lines", (str(n),), f"vehicle {vid} completed the trip of {s.request.id}: {n} drop-off lines"))
    for p in pickups:
        ctx.cov["c19:pickup"] += 1
        w = _hms(p.get("wait_time_seconds", ""))
        if w is None:
            out.append(Violation("C19", "wait_time_unparseable", (), f"pickup of {p['request_id']}: wait_time_seconds = {p.get('wait_time_seconds')!r}"))
        elif not (0 <= w <= timeout + step):
            out.append(Violation("C19", "wait_time_range", ("negative_wrapped" if w > 43200 else "too_long",), f"pickup of {p['request_id']}: wait_time_seconds = {p['wait_time_seconds']} ({w:.0f} s), allowed [0, {timeout + step}]"))
        if w is not None and w == 0:
            ctx.cov["c19:pickup_zero_wait"] += 1
    return out


# ---------------------------------------------------------------------------------------------------
# C18 -- charging queues are first-come first-served


def c18_transition(ctx: Ctx) -> List[Violation]:
    out: List[Violation] = []
    instructed = ctx.instructed()
    pre_q = {vid: v.vehicle_state for vid, v in ctx.pre.vehicles.items() if sname(v) == "ChargeQueueing"}
    if len(pre_q) >= 2:
        ctx.cov["c18:two_or_more_queued"] += 1
    for a, sa in pre_q.items():
        pa = ctx.post.vehicles[a].vehicle_state
        via_base = False
        if pa.__class__.__name__ == "ChargingBase":
            # charging through a base draws from the base's station: if that is the station (and plug type) the vehicle was queueing
            # for, it has been granted one of the plugs the queue is waiting for
            b = ctx.post.bases.get(pa.base_id)
            via_base = b is not None and b.station_id == sa.station_id and pa.charger_id == sa.charger_id
        if pa.__class__.__name__ != "ChargingStation" and not via_base:
            if pa.__class__.__name__ != "ChargeQueueing":
                ctx.cov["c18:abandoned_queue"] += 1
            continue
        if a in instructed and a in addressed_by_controller(ctx):
            ctx.cov["c18:instructed_plug_in"] += 1  # the controller chose who plugs in; not the queue's grant
            continue
        if a in instructed:
            ctx.cov["c18:plug_in_by_the_drivers_own_instruction"] += 1  # generated by the library itself: judged
        else:
            ctx.cov["c18:grant_by_queue"] += 1
        by_driver = a in instructed
        for b, sb in pre_q.items():
            if b == a or (sb.station_id, sb.charger_id) != (sa.station_id, sa.charger_id):
                continue
            pb = ctx.post.vehicles[b].vehicle_state
            if pb.__class__.__name__ != "ChargeQueueing":
                continue
            ctx.cov["c18:grant_while_another_keeps_waiting"] += 1
            if int(sb.enqueue_time) // 86400 != int(sa.enqueue_time) // 86400:
                ctx.cov["c18:queue_spans_midnight"] += 1
            # the same judgement by the order of arrival the harness itself observed (who was seen in this queue after which step):
            # the stamp the library keeps is the field its own queue logic sorts on, so an oracle resting on it alone cannot see a
            # vehicle that carries an older stamp into a queue it joined later
            from .w_fifo import observed_rank

            rank = observed_rank(ctx.hv_pre, sa.station_id, sa.charger_id)
            if rank is not None and a in rank and b in rank:
                ctx.cov["c18:judged_by_observed_arrival"] += 1
                if rank[b] < rank[a] and not int(sb.enqueue_time) < int(sa.enqueue_time):
                    out.append(
                        Violation("C18", "overtaken", (sa.charger_id, "observed_arrival_order"), f"{a} was granted the {sa.charger_id} plug at {sa.station_id} while {b}, seen waiting in that queue {rank[a] - rank[b]} arrival(s) earlier, keeps waiting (the stamps say {a}: {int(sa.enqueue_time)}, {b}: {int(sb.enqueue_time)})")
                    )
            if int(sb.enqueue_time) < int(sa.enqueue_time):
                out.append(
                    Violation("C18", "overtaken", (sa.charger_id,) + (("by_driver_instruction", instructed[a]["instruction_type"]) if by_driver else ()), f"{a} (queued at {int(sa.enqueue_time)}) was granted the {sa.charger_id} plug at {sa.station_id} while {b}, queued since {int(sb.enqueue_time)}, keeps waiting" + (f" (through its own driver's {instructed[a]['instruction_type']})" if by_driver else ""))
                )
            elif int(sb.enqueue_time) == int(sa.enqueue_time):
                ctx.cov["c18:tie_on_enqueue_time"] += 1
                if b < a:
                    out.append(Violation("C18", "tie_not_by_id", (sa.charger_id,), f"{a} and {b} joined the queue together; {a} was granted the plug before {b}"))
    return out


# ---------------------------------------------------------------------------------------------------
# C16 -- earlier states never modified (the work is done by the wrapped transition of w_imm)


def c16_transition(ctx: Ctx) -> List[Violation]:
    f = getattr(ctx.reports, "findings", None)
    if f is None:
        raise RuntimeError("C16 monitor needs an immutability world (w_imm)")
    for k, v in getattr(ctx.reports, "counts", {}).items():
        ctx.cov[f"c16:{k}"] += v
    return [Violation("C16", clause, (where,), msg) for clause, where, msg in f]


# ---------------------------------------------------------------------------------------------------
# C09 -- instructions all-or-nothing (atomicity) and one per vehicle per step (precedence)

_TARGET_ACTIVITY = {
    "Idle": ("Idle",),
    "OutOfService": ("OutOfService",),
    "DispatchTrip": ("DispatchTrip",),
    "DispatchStation": ("DispatchStation", "ChargingStation"),
    "ChargeStation": ("ChargingStation",),
    "DispatchBase": ("DispatchBase",),
    "ReserveBase": ("ReserveBase",),
    "ChargeBase": ("ChargingBase",),
    "Reposition": ("Repositioning",),
    "Pool": ("ServicingPoolingTrip", "DispatchPoolingTrip"),
}


def _differences(a, b) -> List[str]:
    """names of the SimulationState fields that differ (deep equality of the immutable values)"""
    return [f for f in a._fields if f != "road_network" and getattr(a, f) != getattr(b, f)] + (
        ["road_network"] if a.road_network is not b.road_network else []
    )


def _menu_probe(ctx: Ctx, prop: str, state_fn) -> List[Violation]:
    """every single instruction of the world's FULL menu (incl. far-away / missing / wrong-plug targets) applied through
    apply_instructions to the post-state of every explored transition; the state invariant is judged on each result"""
    from nrel.hive.state.simulation_state.update.step_simulation_ops import apply_instructions
    from .worlds import mk_instruction
    import immutables

    out: List[Violation] = []
    s = ctx.post._replace(applied_instructions=immutables.Map())
    if state_fn(s):
        return out  # already reported by the transition monitor
    for ev in ctx.world.atomic_menu:
        kind, vid = ev[1], ev[2]
        v0 = s.vehicles.get(vid)
        s2 = apply_instructions(s, ctx.env, (mk_instruction(ev),))
        ctx.cov[f"{prop.lower()}:menu_probe"] += 1
        if s2 is s:
            continue
        for c, d, m in state_fn(s2):
            out.append(Violation(prop, c, d + ("menu_probe", kind, sname(v0) if v0 is not None else "-"), f"after {kind} for {vid} ({sname(v0) if v0 is not None else 'missing'}) applied to a reached state: {m}"))
    ctx.world.env.reporter.take()
    return out


def c07_menu_probe(ctx: Ctx) -> List[Violation]:
    return _menu_probe(ctx, "C07", c07_state)


def c02_menu_probe(ctx: Ctx) -> List[Violation]:
    return _menu_probe(ctx, "C02", c02_state)


def c09_atomicity(ctx: Ctx) -> List[Violation]:
    """on the post-state of every explored transition: every single instruction of the menu"""
    from nrel.hive.state.simulation_state.update.step_simulation_ops import apply_instructions
    from .worlds import mk_instruction
    import immutables

    out: List[Violation] = []
    s = ctx.post._replace(applied_instructions=immutables.Map())
    env = ctx.env
    refused = []
    for ev in ctx.world.atomic_menu:
        kind, vid = ev[1], ev[2]
        i = mk_instruction(ev)
        try:
            s2 = apply_instructions(s, env, (i,))
        except Exception as e:
            # an instruction that cannot be carried out is REJECTED; one that raises takes the whole step (and with it the
            # instructions of every other vehicle) down
            ctx.world.env.reporter.take()
            out.append(Violation("C09", "instruction_raised", (kind, type(e).__name__), f"{kind} {ev[3:]} for {vid} raised {type(e).__name__}: {e} -- instead of being rejected (the whole step, with the other vehicles' instructions, is lost)"))
            continue
        ctx.world.env.reporter.take()
        v0, v2 = s.vehicles.get(vid), s2.vehicles.get(vid)
        if v0 is None:
            if s2 != s:
                out.append(Violation("C09", "missing_vehicle_changed_state", (kind,), f"{kind} for missing vehicle {vid} changed {_differences(s, s2)}"))
            continue
        unchanged = v2.vehicle_state is v0.vehicle_state or v2.vehicle_state == v0.vehicle_state
        if v2.vehicle_state is not v0.vehicle_state and type(v2.vehicle_state) is type(v0.vehicle_state) and v2.vehicle_state.instance_id != v0.vehicle_state.instance_id:
            unchanged = False  # re-entered the same kind of activity (new session)
        a0 = sname(v0)
        if unchanged:
            refused.append(ev)
            ctx.cov[f"c09:refused:{kind}"] += 1
            if s2 != s:
                diff = _differences(s, s2)
                out.append(Violation("C09", "rejected_but_changed", (kind, ",".join(diff)), f"{kind} for {vid} ({a0}) was rejected, yet these fields changed: {diff}"))
        else:
            ctx.cov[f"c09:entered:{kind}"] += 1
            if sname(v2) not in _TARGET_ACTIVITY[kind]:
                out.append(Violation("C09", "entered_other_activity", (kind, sname(v2)), f"{kind} for {vid} ({a0}) led to {sname(v2)}"))
            for c, d, m in c02_state(s2):
                out.append(Violation("C09", "accepted_inconsistent", (kind, "C02:" + c), f"after accepting {kind} for {vid} ({a0}): {m}"))
            for c, d, m in c07_state(s2):
                out.append(Violation("C09", "accepted_inconsistent", (kind, "C07:" + c), f"after accepting {kind} for {vid} ({a0}): {m}"))
            for c, d, m in c17_state(s2):
                out.append(Violation("C09", "accepted_inconsistent", (kind, "C17:" + c), f"after accepting {kind} for {vid} ({a0}): {m}"))
            # the other vehicles are untouched
            for ovid, ov in s2.vehicles.items():
                if ovid != vid and ov is not s.vehicles[ovid] and ov != s.vehicles[ovid]:
                    out.append(Violation("C09", "other_vehicle_touched", (kind,), f"{kind} for {vid} changed vehicle {ovid}"))
    # a rejected instruction for one vehicle does not disturb the instructions of others
    if ctx.world.atomic_pairs:
        others = ctx.world.pair_menu
        for i_ev in [r for r in refused if r in ctx.world.pair_menu]:
            u = i_ev[2]
            i = mk_instruction(i_ev)
            for j_ev in others:
                if j_ev[2] == u:
                    continue
                j = mk_instruction(j_ev)
                sj = apply_instructions(s, env, (j,))
                sji = apply_instructions(sj._replace(applied_instructions=immutables.Map()), env, (i,))
                # only pairs where i is refused both on s and after j (j neither needs nor enables i)
                if sji.vehicles.get(u) is None or sji.vehicles[u].vehicle_state != sj.vehicles[u].vehicle_state:
                    continue
                ctx.cov["c09:pairs"] += 1
                want = sj._replace(applied_instructions=immutables.Map())
                for order in ((i, j), (j, i)):
                    got = apply_instructions(s, env, order)
                    got_cmp = got._replace(applied_instructions=immutables.Map())
                    if got_cmp != want:
                        # vehicles may differ by a fresh instance id only
                        from .canon import canon_sim_full

                        if canon_sim_full(got_cmp) != canon_sim_full(want):
                            out.append(Violation("C09", "rejected_disturbs_other", (i_ev[1], j_ev[1]), f"{i_ev[1]} for {u} is rejected, yet applying it together with {j_ev[1]} for {j_ev[2]} gives a different state than {j_ev[1]} alone ({_differences(got_cmp, want)})"))
                ctx.world.env.reporter.take()
    return out


def c09_precedence(ctx: Ctx) -> List[Violation]:
    """worlds with two scripted generators: events ("I", kind, vid, ...) belong to G1, ("J", kind, vid, ...) to G2"""
    out: List[Violation] = []
    g1 = {e[2]: e for e in ctx.events if e[0] == "I"}
    g2 = {e[2]: e for e in ctx.events if e[0] == "J"}
    g2b = {e[2]: e for e in ctx.events if e[0] == "L"}  # G2's second instruction of the step (generated after its first)
    per_vehicle: Dict[str, list] = {}
    for r in ctx.reports:
        if r.report_type.name == "INSTRUCTION":
            per_vehicle.setdefault(r.report["vehicle_id"], []).append(r.report["instruction_type"])
    from nrel.hive.state.simulation_state.update.step_simulation_ops import perform_driver_state_updates

    sim_d = perform_driver_state_updates(ctx.world.pre_step(ctx.pre, ctx.events), ctx.env)
    ctx.env.reporter.take()
    for vid, v in sim_d.vehicles.items():
        got = per_vehicle.get(vid, [])
        if len(got) > 1:
            out.append(Violation("C09", "two_instructions_one_vehicle", (), f"vehicle {vid}: {got} took effect in one step"))
            continue
        stack = tuple(x for x in (g2b.get(vid), g2.get(vid), g1.get(vid)) if x is not None)
        from .worlds import mk_instruction

        prev = tuple(mk_instruction(("I",) + e[1:]) for e in stack) or None
        drv = v.driver_state.generate_instruction(sim_d, ctx.env, prev)
        ctx.env.reporter.take()
        if drv is not None:
            want, who = drv.__class__.__name__, "driver"
        elif vid in g2b:
            want, who = g2b[vid][1] + "Instruction", "G2_second"
            if vid in g2:
                ctx.cov["c09:one_generator_two_instructions_same_vehicle"] += 1
        elif vid in g2:
            want, who = g2[vid][1] + "Instruction", "G2"
        elif vid in g1:
            want, who = g1[vid][1] + "Instruction", "G1"
        else:
            want, who = None, "nobody"
        ctx.cov[f"c09:winner:{who}"] += 1
        if vid in g1 and vid in g2:
            ctx.cov["c09:both_generators_same_vehicle"] += 1
        if (got[0] if got else None) != want:
            out.append(Violation("C09", "wrong_winner", (who, str(want), str(got[0] if got else None)), f"vehicle {vid}: the instruction that took effect is {got[0] if got else None}; expected {want} ({who} speaks last)"))
            continue
        if want is not None and who != "driver":
            # the winner's target activity, if the vehicle changed activity at all in apply_instructions
            pass
    return out


# ---------------------------------------------------------------------------------------------------
# C10 -- fleet membership enforced on every interaction


def _grants(entity, vehicle) -> bool:
    """entities without membership are open to all; otherwise a common membership id is needed"""
    m = set(entity.membership.memberships)
    return not m or bool(m & set(vehicle.membership.memberships))


def c10_state(sim, ctx=None) -> List[Tuple[str, tuple, str]]:
    out = []
    for vid, v in sim.vehicles.items():
        s = v.vehicle_state
        n = s.__class__.__name__
        target = None
        if n == "DispatchTrip":
            target = sim.requests.get(s.request_id)
        elif n == "ServicingTrip":
            target = s.request
        elif n in ("DispatchStation", "ChargingStation", "ChargeQueueing"):
            target = sim.stations.get(s.station_id)
        elif n in ("DispatchBase", "ReserveBase", "ChargingBase"):
            target = sim.bases.get(s.base_id)
        if target is None:
            continue
        if ctx is not None:
            ctx.cov[f"c10:activity_with_target:{n}"] += 1
            if n == "ChargingBase":
                b = target
                st = sim.stations.get(b.station_id) if b.station_id else None
                if st is not None and not _grants(st, v):
                    ctx.cov["c10:charging_base_station_of_other_fleet"] += 1
        if not _grants(target, v):
            out.append(("no_access", (n, "vehicle_without_fleet" if not v.membership.memberships else "other_fleet"), f"vehicle {vid} {sorted(v.membership.memberships)} is {n} with {target.id} {sorted(target.membership.memberships)}"))
        elif n == "ChargingBase" and target.station_id:
            # charging through a base draws from the base's STATION: "charging at ... a station ... whose membership does not grant it access"
            st = sim.stations.get(target.station_id)
            if st is not None and not _grants(st, v):
                out.append(("no_access", ("ChargingBase", "station_of_the_base", "vehicle_without_fleet" if not v.membership.memberships else "other_fleet"),
                            f"vehicle {vid} {sorted(v.membership.memberships)} is charging at base {target.id} on a plug of station {st.id} {sorted(st.membership.memberships)}, which does not grant it access"))
    return out


def c10_transition(ctx: Ctx) -> List[Violation]:
    out = [Violation("C10", c, d + (instr_kind(ctx, m.split()[1]),), m) for c, d, m in c10_state(ctx.post, ctx)]
    # the built-in generators and the drivers, asked on the reached state
    sim, env = ctx.post, ctx.env
    for g in getattr(ctx.world, "probe_generators", ()):
        _, instrs = g.generate_instructions(sim, env)
        env.reporter.take()
        out += _c10_judge_instructions(ctx, sim, instrs, g.__class__.__name__)
    drv = []
    for v in sim.get_vehicles():
        i = v.driver_state.generate_instruction(sim, env, None)
        if i is not None:
            drv.append(i)
    env.reporter.take()
    out += _c10_judge_instructions(ctx, sim, drv, "driver")
    return out


def _c10_judge_instructions(ctx: Ctx, sim, instrs, who: str) -> List[Violation]:
    out = []
    for i in instrs:
        v = sim.vehicles.get(i.vehicle_id)
        if v is None:
            continue
        n = i.__class__.__name__
        target = None
        if n == "DispatchTripInstruction":
            target = sim.requests.get(i.request_id)
        elif n in ("DispatchStationInstruction", "ChargeStationInstruction"):
            target = sim.stations.get(i.station_id)
        elif n in ("DispatchBaseInstruction", "ReserveBaseInstruction", "ChargeBaseInstruction"):
            target = sim.bases.get(i.base_id)
        if target is None:
            continue
        ctx.cov[f"c10:builtin:{who}:{n[:-11]}"] += 1
        if who == "driver" and hasattr(i, "base_id") and getattr(v.driver_state, "home_base_id", None) == i.base_id and not _grants(target, v):
            # a driver naming his OWN home base although it does not admit him: an inconsistent input (initialisation gives a home
            # base shared by several drivers the private id of the last one only); the instruction is refused, nothing is entered
            ctx.cov["c10:driver_names_own_home_base_that_does_not_admit_him"] += 1
            continue
        if not _grants(target, v):
            out.append(Violation("C10", "builtin_no_access", (who, n[:-11], "vehicle_without_fleet" if not v.membership.memberships else "other_fleet"), f"{who} pairs vehicle {v.id} {sorted(v.membership.memberships)} with {target.id} {sorted(target.membership.memberships)} ({n})"))
    return out


def c10_initial(world, sim) -> List[Violation]:
    return [Violation("C10", c, d + ("initial",), m) for c, d, m in c10_state(sim)]


# ---------------------------------------------------------------------------------------------------
# C06 -- continuous movement, no faster than the road allows.
# Everything is reconstructed from the route stored before and after the step, never from the traversal code.


def _gc_km(a: str, b: str) -> float:
    from .worlds import gc_km

    return gc_km(a, b)


def _gt_speed(rn, link_id: str, fallback: float) -> float:
    try:
        l = rn.link_from_link_id(link_id)
        return float(l.speed_kmph) if l is not None and l.speed_kmph > 0 else fallback
    except Exception:
        return fallback


def net_vmax(rn) -> float:
    """fastest link of the network (40 km/h on the straight-line network)"""
    v = getattr(rn, "_hivemc_vmax", None)
    if v is None:
        if hasattr(rn, "link_helper"):
            v = max(float(l.speed_kmph) for l in rn.link_helper.links.values())
        else:
            v = float(getattr(rn, "_AVG_SPEED_KMPH", 40.0))
        try:
            rn._hivemc_vmax = v
        except Exception:
            pass
    return v


def nominal_seconds(rn, route) -> float:
    return sum(l.distance_km / _gt_speed(rn, l.link_id, l.speed_kmph) * 3600.0 for l in route if l.start != l.end)


def initial_route(rn, a, sb, sim):
    """the route a travelling activity had when it was entered from vehicle `a`'s position, rebuilt with the router
    (whose own correctness is C13's subject); None when the target cannot be determined"""
    from nrel.hive.model.entity_position import EntityPosition

    n = sb.__class__.__name__
    try:
        if n == "ServicingTrip":
            return tuple(rn.route(sb.request.position, sb.request.destination_position))
        if n == "DispatchStation" and sim is not None and sb.station_id in sim.stations:
            return tuple(rn.route(a.position, sim.stations[sb.station_id].position))
        if n == "DispatchBase" and sim is not None and sb.base_id in sim.bases:
            return tuple(rn.route(a.position, sim.bases[sb.base_id].position))
        if n == "DispatchTrip" and sim is not None and sb.request_id in sim.requests:
            return tuple(rn.route(a.position, sim.requests[sb.request_id].position))
        if n == "Repositioning" and len(sb.route) > 0:
            return tuple(rn.route(a.position, EntityPosition(sb.route[-1].link_id, sb.route[-1].end)))
    except Exception:
        return None
    return None


_ROAD_TABLES: dict = {}


def _road_table(rn):
    """street graphs only: link id -> (cell of its start junction, cell of its end junction, declared length km, speed km/h),
    read once from the network's static link table (None for the straight-line network, where every link IS its geometry)"""
    lh = getattr(rn, "link_helper", None)
    if lh is None:
        return None
    t = _ROAD_TABLES.get(id(rn))
    if t is None or t[0] is not rn:
        t = (rn, {lid: (l.start, l.end, float(l.distance_km), float(l.speed_kmph)) for lid, l in lh.links.items()})
        _ROAD_TABLES[id(rn)] = t
    return t[1]


def c06_vehicle_step(rn, a, b, move_events, step_s: float) -> List[Tuple[str, tuple, str]]:
    """a, b: the vehicle before / after one step in which no instruction changed its activity.
    returns [(clause, discriminators, message)]"""
    out = []
    sa, sb = a.vehicle_state, b.vehicle_state
    na, nb = sa.__class__.__name__, sb.__class__.__name__
    vid = a.id
    dodo = b.distance_traveled_km - a.distance_traveled_km
    ev_dist = sum(float(e["distance_km"]) for e in move_events)
    moved = b.geoid != a.geoid
    if abs(dodo - ev_dist) > 1e-9:
        out.append(("odometer_vs_event", (na,), f"vehicle {vid}: odometer grew by {dodo}, move events say {ev_dist}"))
    if not move_events and (moved or abs(dodo) > 1e-12):
        out.append(("moved_without_event", (na,), f"vehicle {vid} moved {a.geoid}->{b.geoid} / odometer +{dodo} without a move event"))
    travelling = na in TRAVEL and hasattr(sa, "route")
    if not travelling:
        if moved or abs(dodo) > 1e-12:
            out.append(("moved_while_not_travelling", (na, nb), f"vehicle {vid} is {na} and moved {a.geoid}->{b.geoid} (odometer +{dodo})"))
        return out
    R = tuple(sa.route)
    same_activity = nb == na and getattr(sb, "instance_id", None) == getattr(sa, "instance_id", None)
    if not same_activity:
        # left the activity in this step (arrival default transition, or ran dry): the pre-route must have been used up,
        # except DispatchTrip -> ServicingTrip, which moves along a *new* route in the same step (judged by speed only)
        if nb == "OutOfService":
            if moved or abs(dodo) > 1e-12:
                out.append(("moved_without_energy", (na,), f"vehicle {vid} went out of service but moved"))
            return out
        if len(R) > 0 and not (R[0].start == R[-1].end == a.geoid):
            # an activity may only be left on arrival (or by instruction, which the caller filtered out)
            out.append(("left_before_arrival", (na, nb), f"vehicle {vid} left {na} with {len(R)} links remaining"))
        if nb in TRAVEL and hasattr(sb, "route"):
            # the new activity moved along a new route in this very step (pickup step): rebuild that route as it was
            # when the activity was entered and judge the step against it
            full = initial_route(rn, a, sb, None)
            if full is None:
                vmax = net_vmax(rn)
                if _gc_km(a.geoid, b.geoid) > vmax * (step_s + 1.0) / 3600.0 + 0.002:
                    out.append(("too_fast", (na + ">" + nb,), f"vehicle {vid} covered {_gc_km(a.geoid, b.geoid):.4f} km in {step_s} s at most {vmax} km/h"))
            elif len(full) == 0:
                if moved:
                    out.append(("moved_with_empty_route", (nb,), f"vehicle {vid} entered {nb} with nothing to drive and moved"))
            else:
                a2 = a.modify_vehicle_state(sb.update_route(full))
                out += [(c, d + ("entered_this_step",), m) for c, d, m in c06_vehicle_step(rn, a2, b, move_events, step_s)]
        elif moved:
            out.append(("moved_after_arrival", (na, nb), f"vehicle {vid} moved while leaving {na}"))
        return out
    Rp = tuple(sb.route)
    if len(R) == 0:
        if len(Rp) != 0 or moved:
            out.append(("moved_with_empty_route", (na,), f"vehicle {vid} {na} had no route left and moved / grew a route"))
        # leaves the travelling activity within one step of arriving
        out.append(("stuck_after_arrival", (na,), f"vehicle {vid} stays {na} although nothing remains of its route"))
        return out
    # nothing to drive: every link of the route begins and ends in one place (the straight-line network's "g-g" links) -> the
    # route is dropped, no movement.  (A route that merely ends in the cell where it begins -- round the block to the other side of
    # the street -- is driven like any other since repair D27; before it, the library dropped it and this oracle let it.)
    if len(Rp) == 0 and not moved and all(l.start == l.end for l in R):
        if abs(dodo) > 1e-12:
            out.append(("odometer_without_move", (na,), f"vehicle {vid} did not move, odometer +{dodo}"))
        return out
    # align: Rp must be R[k:] with, possibly, a new start cell on its first link
    k = None
    for cand in range(0, len(R) + 1):
        tail = R[cand:]
        if len(tail) != len(Rp):
            continue
        if not tail:
            k = cand
            break
        if tail[0].link_id == Rp[0].link_id and tail[0].end == Rp[0].end and all(x == y for x, y in zip(tail[1:], Rp[1:])):
            k = cand
            break
    if k is None:
        out.append(("route_not_suffix", (na,), f"vehicle {vid}: the remaining route {[l.link_id for l in Rp]} is not a suffix of {[l.link_id for l in R]} (same links, same order, same destination)"))
        return out
    whole = R[:k]
    piece = None
    if Rp and Rp[0].start != R[k].start:
        piece = (R[k], R[k].start, Rp[0].start)
    # junction
    if Rp:
        if b.geoid != Rp[0].start:
            out.append(("junction", (na,), f"vehicle {vid} stands on {b.geoid}, the remaining route starts on {Rp[0].start}"))
    else:
        if b.geoid != R[-1].end:
            out.append(("junction", (na, "arrival"), f"vehicle {vid} used up its route but stands on {b.geoid}, the route ended on {R[-1].end}"))
    if moved and b.position.link_id not in {l.link_id for l in R}:
        out.append(("position_link", (na,), f"vehicle {vid} position names link {b.position.link_id}, not a link of its route"))
    if Rp and Rp[-1].end != R[-1].end:
        out.append(("destination_changed", (na,), f"vehicle {vid}: route destination changed {R[-1].end} -> {Rp[-1].end}"))
    # time
    t = 0.0
    dist = 0.0
    slowest = 1000.0
    for l in whole:
        if l.start == l.end:
            continue
        sp = _gt_speed(rn, l.link_id, l.speed_kmph)
        slowest = min(slowest, sp)
        t += int(l.distance_km / sp * 3600.0)
        dist += l.distance_km
    if piece is not None:
        l, p0, p1 = piece
        sp = _gt_speed(rn, l.link_id, l.speed_kmph)
        slowest = min(slowest, sp)
        g = _gc_km(p0, p1)
        tb = _road_table(rn)
        if tb is not None and l.link_id in tb and _gc_km(tb[l.link_id][0], tb[l.link_id][1]) > 0:
            # a street's length is generally not its straight line: the cut part has the same share of the declared length
            n0, n1, declared, _sp = tb[l.link_id]
            g = declared * max(0.0, _gc_km(n0, p1) - _gc_km(n0, p0)) / _gc_km(n0, n1)
        t += g / sp * 3600.0
        dist += g
    slack = 0.001 / max(min(slowest, 1000.0), 1e-9) * 3600.0 if slowest < 1000.0 else 0.0
    if t > step_s + slack + 1e-6:
        out.append(("too_fast", (na,), f"vehicle {vid} drove links worth {t:.2f} s of travel time in a {step_s} s step"))
    # whole links: exactly their length; a link cut by the end of the step: the cut is a cell (about a metre across), the length
    # driven on it is time x speed
    if abs(dodo - dist) > (1e-9 if piece is None else 0.0015):
        out.append(("odometer_vs_route", (na,), f"vehicle {vid}: odometer grew by {dodo}, the driven part of the route measures {dist}"))
    # the same two clauses against the ROAD itself (street graphs): every driven piece is measured as the share of its street's
    # declared length that lies between its two cells -- not by the length the library's route object carries for it
    table = _road_table(rn)
    if table is not None:
        pieces = [(l.link_id, l.start, l.end) for l in whole if l.start != l.end]
        if piece is not None:
            pieces.append((piece[0].link_id, piece[1], piece[2]))
        road_km, need_s, known = 0.0, 0.0, True
        for lid, c0, c1 in pieces:
            if lid not in table:
                known = False
                break
            n0, n1, declared, sp = table[lid]
            full = _gc_km(n0, n1)
            if full <= 0:
                continue
            share = max(0.0, (_gc_km(n0, c1) - _gc_km(n0, c0)) / full)
            road_km += declared * share
            need_s += declared * share / sp * 3600.0
        if known and pieces:
            cell_tol = 0.003 * len(pieces)  # a cell is ~1 m across
            if abs(dodo - road_km) > cell_tol + 0.002 * road_km:
                out.append(("odometer_vs_road", (na, "over_counts" if dodo > road_km else "under_counts"), f"vehicle {vid}: odometer grew by {dodo:.4f} km, the stretch of road it covered ({[p[0] for p in pieces]}) measures {road_km:.4f} km"))
            if need_s > step_s + 1.0 * len(pieces) + cell_tol / max(min(slowest, 1000.0), 1e-9) * 3600.0:
                out.append(("too_fast_for_the_road", (na,), f"vehicle {vid} covered {road_km:.4f} km of road ({[p[0] for p in pieces]}), worth {need_s:.1f} s at the streets' speeds, in one {step_s} s step"))
    # progress
    if nb != "OutOfService" and nominal_seconds(rn, Rp) >= nominal_seconds(rn, R) - 1e-9:
        out.append(("no_progress", (na,), f"vehicle {vid}: remaining nominal travel time {nominal_seconds(rn, R):.3f} s -> {nominal_seconds(rn, Rp):.3f} s"))
    return out


def c06_transition(ctx: Ctx) -> List[Violation]:
    out: List[Violation] = []
    instructed = ctx.instructed()
    step_s = ctx.pre.sim_timestep_duration_seconds
    moves: Dict[str, list] = {}
    for r in ctx.of_type("VEHICLE_MOVE_EVENT"):
        moves.setdefault(r["vehicle_id"], []).append(r)
    rn = ctx.post.road_network
    for vid, b in ctx.post.vehicles.items():
        a = ctx.pre.vehicles.get(vid)
        if a is None:
            continue
        sa, sb = a.vehicle_state, b.vehicle_state
        if vid in instructed and (type(sa) is not type(sb) or getattr(sa, "instance_id", 0) != getattr(sb, "instance_id", 0)):
            # a new activity was entered by instruction; its initial route is not in the pre-state: speed bound only
            ctx.cov["c06:instructed_this_step"] += 1
            full = initial_route(rn, a, sb, ctx.post) if hasattr(sb, "route") else ()
            if full is None:
                vmax = net_vmax(rn)
                if _gc_km(a.geoid, b.geoid) > vmax * (step_s + 1.0) / 3600.0 + 0.002:
                    out.append(Violation("C06", "too_fast", ("after_instruction",), f"vehicle {vid} covered {_gc_km(a.geoid, b.geoid):.4f} km in one {step_s} s step"))
            elif len(full) == 0 or not hasattr(sb, "route"):
                if b.geoid != a.geoid:
                    out.append(Violation("C06", "moved_with_empty_route", (sname(b), "after_instruction"), f"vehicle {vid} entered {sname(b)} with nothing to drive and moved"))
            else:
                a2 = a.modify_vehicle_state(sb.update_route(full))
                for clause, disc, msg in c06_vehicle_step(rn, a2, b, moves.get(vid, []), step_s):
                    out.append(Violation("C06", clause, disc + ("after_instruction",), msg))
            continue
        if sname(a) in TRAVEL:
            ctx.cov[f"c06:judged:{sname(a)}"] += 1
            if b.geoid != a.geoid and len(getattr(sb, "route", ())) > 0 and sname(b) == sname(a):
                ctx.cov["c06:mid_link_split"] += 1
        for clause, disc, msg in c06_vehicle_step(rn, a, b, moves.get(vid, []), step_s):
            extra = ""
            if clause == "stuck_after_arrival":
                if ctx.env.mechatronics[a.mechatronics_id].is_full(a):
                    extra = "battery_full"
                elif sname(a) == "DispatchTrip":
                    req = ctx.pre.requests.get(a.vehicle_state.request_id)
                    if req is not None and req.allows_pooling and a.driver_state.allows_pooling:
                        extra = "request_allows_pooling"
            out.append(Violation("C06", clause, disc + ((extra,) if extra else ()), msg))
    return out
