"""
C06 ENUM-journeys: for every ordered pair of (snapped) positions of a network, every step length and every target
kind, the real instruction is applied to a one-vehicle world and real steps are run until the vehicle has left the
travelling activity; every step is judged by monitors.c06_vehicle_step (reconstructed from the stored routes).
"""
from __future__ import annotations

import itertools
from typing import Any, Dict, List, Tuple

import h3
import immutables

from . import seed, tier
from .enumrun import pmap, rotate
from .monitors import TRAVEL, c06_vehicle_step, nominal_seconds
from .nets import build, link_positions
from .report import Check, Finding, log
from .worlds import CapturingReporter, _chargers, _mechatronics, build_sim, make_config, mk_base, mk_station, mk_vehicle, sites

from nrel.hive.dispatcher.instruction.instructions import (
    DispatchBaseInstruction,
    DispatchStationInstruction,
    DispatchTripInstruction,
    RepositionInstruction,
)
from nrel.hive.model.request import Request
from nrel.hive.model.sim_time import SimTime
from nrel.hive.runner.environment import Environment
from nrel.hive.state.simulation_state import simulation_state_ops
from nrel.hive.state.simulation_state.update.step_simulation import StepSimulation
from nrel.hive.state.simulation_state.update.step_simulation_ops import apply_instructions

STEPS = (1, 7, 30, 60, 61, 300)
KINDS = ("station", "base", "request", "reposition")
MAX_STEPS = 450


GRAZING_STEPS = (60, 300, 600)


def grazing_cells(only_step=None) -> List[str]:
    """destinations on one straight line out of site A whose distance is a whole number of steps' worth of driving (at the straight-line
    network's 40 km/h) plus 0.2 % ... 2 %: the last cut of the journey then falls just short of the destination"""
    import h3
    from nrel.hive.util.h3_ops import H3Ops

    S = sites()
    a = S["A"]
    lat, lon = h3.h3_to_geo(a)
    far = h3.geo_to_h3(lat + 0.2, lon + 0.02, 15)  # ~22 km away
    out = [a]
    for st in GRAZING_STEPS:
        if only_step is not None and st != only_step:
            continue  # each destination is driven to under the step length it was laid out for (journeys of 2-4 steps)
        d = 40.0 * st / 3600.0
        for m in (1, 2, 3):
            for eps in (0.002, 0.005, 0.009, 0.02):
                want = m * d * (1 + eps)
                total = H3Ops.great_circle_distance(a, far)
                if want >= total:
                    continue
                la, lo = h3.h3_to_geo(far)
                f = want / total
                cell = h3.geo_to_h3(lat + (la - lat) * f, lon + (lo - lon) * f, 15)
                if cell not in out:
                    out.append(cell)
    return out


def position_cells(rn, spec) -> List[str]:
    if spec[0] == "haversine" and len(spec) > 1 and spec[1] == "grazing":
        return grazing_cells()
    if spec[0] == "haversine":
        S = sites()
        return sorted({S[k] for k in ("A", "N1", "X1", "M1", "F1")})
    cells = []
    for lid in sorted(rn.link_helper.links.keys()):
        cells += [p.geoid for p in link_positions(rn, lid)]
    out, seen = [], set()
    for c in cells:
        if c not in seen:
            seen.add(c)
            out.append(c)
    return out


def run_journey(env, rn, step: int, kind: str, o_cell: str, d_cell: str):
    """returns (n_steps, findings[(clause, disc, msg)], outcome)"""
    cfg = env.config
    v = mk_vehicle(env, rn, "v0", o_cell, "quiet", soc=0.5)
    stations, bases = [], []
    if kind == "station":
        stations.append(mk_station(env, rn, "s0", d_cell, {"DCFC": 1}))
    elif kind == "base":
        bases.append(mk_base(rn, "b0", d_cell, stalls=1))
    sim = build_sim(env, rn, vehicles=(v,), stations=stations, bases=bases)
    sim = sim._replace(sim_timestep_duration_seconds=step)
    if kind == "request":
        far = sites()["M2"] if rn.__class__.__name__ == "HaversineRoadNetwork" else position_cells(rn, ("x",))[0]
        req = Request.build("r0", d_cell, far, rn, SimTime.build(0), 1, False)
        sim = simulation_state_ops.add_request_safe(sim, req).unwrap()
        instr = DispatchTripInstruction("v0", "r0")
        target_cell = sim.requests["r0"].geoid
    elif kind == "station":
        instr = DispatchStationInstruction("v0", "s0", "DCFC")
        target_cell = sim.stations["s0"].geoid
    elif kind == "base":
        instr = DispatchBaseInstruction("v0", "b0")
        target_cell = sim.bases["b0"].geoid
    else:
        pos = rn.position_from_geoid(d_cell)
        instr = RepositionInstruction("v0", pos.link_id)
        target_cell = rn.link_from_link_id(pos.link_id).end
    findings = []
    s1 = apply_instructions(sim, env, (instr,))
    env.reporter.take()
    a = s1.vehicles["v0"]
    first = a.vehicle_state.__class__.__name__
    if first not in TRAVEL:
        # same place / refused: nothing to drive (a station journey from the station's own cell plugs in directly)
        if a.geoid != sim.vehicles["v0"].geoid:
            findings.append(("moved_by_instruction", (kind,), f"applying {instr} moved the vehicle"))
        return 0, findings, "not_travelling:" + first
    route0 = tuple(a.vehicle_state.route)
    # "nothing to drive" = the route has no stretch between two different places (same position; on the straight-line network, same
    # cell).  A target in the vehicle's own cell but on another street / the other direction is reached by driving round the block.
    same_cell = a.geoid == target_cell and all(l.start == l.end for l in route0)
    horizon = int(nominal_seconds(rn, route0) / step) + 5
    if horizon > MAX_STEPS:
        return 0, [], "outside_bound:too_many_steps"
    stepper = StepSimulation.from_tuple(())
    n = 0
    empty_since = None
    activity0 = (first, a.vehicle_state.instance_id)
    cur = s1
    while n < horizon + 2:
        nxt, _ = stepper.update(cur, env)
        reports = env.reporter.take()
        n += 1
        a, b = cur.vehicles["v0"], nxt.vehicles["v0"]
        moves = [r.report for r in reports if r.report_type.name == "VEHICLE_MOVE_EVENT"]
        for clause, disc, msg in c06_vehicle_step(rn, a, b, moves, step):
            findings.append((clause, disc + (kind,), f"[{kind} {o_cell}->{d_cell}, step {step}s, step #{n}] {msg}"))
        if same_cell and activity0[0] == first and a.vehicle_state.__class__.__name__ == first and b.vehicle_state.__class__.__name__ == first and (b.geoid != a.geoid or abs(b.distance_traveled_km - a.distance_traveled_km) > 1e-12):
            findings.append(("same_cell_journey_moved", (kind,), f"[{kind} {o_cell}->{d_cell}] origin and destination share a cell but the vehicle moved"))
        sb = b.vehicle_state
        if (sb.__class__.__name__, getattr(sb, "instance_id", None)) != activity0:
            if kind == "request" and sb.__class__.__name__ == "ServicingTrip":
                # keep following the trip itself
                activity0 = ("ServicingTrip", sb.instance_id)
                horizon = n + int(nominal_seconds(rn, sb.route) / step) + 5
                if horizon - n > MAX_STEPS:
                    return n, findings, "outside_bound:trip_too_long"
                cur = nxt
                continue
            if first != "Repositioning" and kind != "request" and b.geoid != target_cell:
                findings.append(("arrived_elsewhere", (kind,), f"[{kind} {o_cell}->{d_cell}] left {first} on {b.geoid}, target on {target_cell}"))
            return n, findings, "arrived:" + sb.__class__.__name__
        if findings:
            return n, findings, "violation"
        cur = nxt
    findings.append(("never_arrives", (kind, first), f"[{kind} {o_cell}->{d_cell}, step {step}s] still {cur.vehicles['v0'].vehicle_state.__class__.__name__} after {n} steps (nominal {nominal_seconds(rn, route0):.0f} s)"))
    return n, findings, "never_arrives"


def _prime(spec, step: int):
    """drive across a FAST network that uses the same link ids first, in this very process: anything remembered per
    link id across road networks (module-level caches) then shows up as 'too_fast' on the network under test, on every
    run and whatever the order in which shards reach this worker"""
    if spec[0] == "grid":
        fast = ("grid", (130,) * 7, (1,) * 7, ())
    elif spec[0] in ("ring", "deadend"):
        return
    else:
        return
    rn = build(fast)
    cfg = make_config(step=step)
    env = Environment(config=cfg, mechatronics=_mechatronics(), chargers=_chargers(), reporter=CapturingReporter())
    cells = position_cells(rn, fast)
    for o, d in ((cells[0], cells[-1]), (cells[-1], cells[0]), (cells[len(cells) // 2], cells[2])):
        try:
            run_journey(env, rn, step, "station", o, d)
        except Exception:
            pass


def _shard(shard) -> Dict[str, Any]:
    spec, step, kind, part, nparts = shard
    _prime(spec, step)
    rn = build(spec)
    cfg = make_config(step=step)
    env = Environment(config=cfg, mechatronics=_mechatronics(), chargers=_chargers(), reporter=CapturingReporter())
    cells = position_cells(rn, spec) if not (len(spec) > 1 and spec[1] == "grazing") else grazing_cells(step)
    out = {"journeys": 0, "steps": 0, "outcomes": {}, "findings": {}, "samples": [], "nontrivial": 0}
    i = 0
    pairs = [(cells[0], d2) for d2 in cells[1:]] if (len(spec) > 1 and spec[1] == "grazing") else itertools.product(cells, cells)
    for o, d in pairs:
        i += 1
        if i % nparts != part:
            continue
        try:
            n, findings, outcome = run_journey(env, rn, step, kind, o, d)
        except Exception as e:
            n, findings, outcome = 0, [("exception", (kind, type(e).__name__), f"[{kind} {o}->{d}, step {step}s] {type(e).__name__}: {e}")], "exception"
        out["journeys"] += 1
        out["steps"] += n
        if n > 1:
            out["nontrivial"] += 1
        key = outcome.split(":")[0]
        out["outcomes"][outcome] = out["outcomes"].get(outcome, 0) + 1
        for clause, disc, msg in findings:
            out["findings"].setdefault((clause,) + tuple(disc), (msg, {"network": list(spec), "step": step, "kind": kind, "origin": o, "destination": d}))
        if len(out["samples"]) < 1 and n >= 3:
            out["samples"].append({"network": list(spec), "step": step, "kind": kind, "origin": o, "destination": d, "steps_taken": n, "outcome": outcome})
    out["findings"] = [(list(k), m, rp) for k, (m, rp) in out["findings"].items()]
    return out


def networks(quick: bool):
    nets = [("haversine",), ("grid", (10, 100, 40, 10, 100, 40, 10), (1, 1.5, 1, 1, 1.5, 1, 1), ()), ("ring",)]
    if not quick:
        nets += [("grid", (40,) * 7, (1,) * 7, (1, 2)), ("deadend",)]
    return nets


def c06_enum(c: Check):
    quick = tier() == "quick"
    steps = (7, 30, 60, 61, 300) if quick else STEPS
    shards = []
    for spec in networks(quick):
        nparts = 1 if spec[0] == "haversine" else (6 if quick else 12)
        for st in steps:
            for kind in KINDS:
                shards += [(spec, st, kind, p, nparts) for p in range(nparts)]
    for st in GRAZING_STEPS:
        for kind in KINDS:
            shards.append((("haversine", "grazing"), st, kind, 0, 1))
    res = pmap(_shard, rotate(shards, seed()))
    for r in res:
        for sig, msg, rp in r["findings"]:
            c.add(Finding("C06", sig, msg, dict(rp, engine="enum_journeys")))
    journeys = sum(r["journeys"] for r in res)
    nsteps = sum(r["steps"] for r in res)
    outcomes: Dict[str, int] = {}
    for r in res:
        for k, v in r["outcomes"].items():
            outcomes[k] = outcomes.get(k, 0) + v
    cov = c.coverage
    cov["states"] = cov.get("states", 0) + nsteps
    cov["transitions"] = cov.get("transitions", 0) + nsteps
    cov["traces_validated_against_impl"] = cov.get("traces_validated_against_impl", 0) + journeys
    cov["evaluations"] = journeys
    cov["distinct_nontrivial"] = sum(r["nontrivial"] for r in res)
    cov["rule"] = (
        f"every ordered pair of snapped positions (start / second / middle / penultimate / end cell of every link; 5 sites on the straight-line network) x step lengths {steps} x target kinds {KINDS} "
        f"on networks {[list(s)[:1] for s in networks(quick)]}; journeys longer than {MAX_STEPS} steps are outside the bound (counted under journey_outcomes); non-trivial = journeys of more than one step"
    )
    cov["journeys"] = journeys
    cov["journey_steps"] = nsteps
    cov["journey_outcomes"] = dict(sorted(outcomes.items()))
    cov.setdefault("samples", [])
    cov["samples"] += [s for r in res for s in r["samples"]][:3]
    log(f"  C06 ENUM: {journeys} journeys, {nsteps} steps; outcomes {dict(sorted(outcomes.items()))}")


def replay(body) -> int:
    rp = body["replay"]
    spec = tuple(tuple(x) if isinstance(x, list) else x for x in rp["network"])
    rn = build(spec)
    cfg = make_config(step=rp["step"])
    env = Environment(config=cfg, mechatronics=_mechatronics(), chargers=_chargers(), reporter=CapturingReporter())
    n, findings, outcome = run_journey(env, rn, rp["step"], rp["kind"], rp["origin"], rp["destination"])
    print(f"{n} steps, outcome {outcome}")
    for clause, disc, msg in findings:
        print(clause, disc, "::", msg)
    if findings:
        print(f"VIOLATION property=C06 replay={body.get('_path')}")
        return 1
    print("not reproduced on this tree")
    return 0
