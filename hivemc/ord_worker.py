"""
One schedule of the ORD explorer: a fresh interpreter (PYTHONHASHSEED set by the master) loads each requested
scenario through load_scenario, reports the iteration orders it actually realised (order signature), runs the
scenario step by step through hive_cosim.crank and prints per-step fingerprints as one JSON document.

usage: python -m hivemc.ord_worker <out.json> <scenario,scenario,...> [--counters] [--full SCEN:STEP]
"""
from __future__ import annotations

import json
import os
import shutil
import sys
from collections import Counter


def order_signature(rp) -> dict:
    import h3

    sim, env = rp.s, rp.e
    sig = {"env.fleet_ids": [str(x) for x in env.fleet_ids]}
    for sid in sorted(sim.stations):
        st = sim.stations[sid]
        if len(st.on_shift_access_chargers) > 1:
            sig[f"station[{sid}].on_shift"] = list(st.on_shift_access_chargers)
        if len(st.state) > 1:
            sig[f"station[{sid}].plugs(Map)"] = list(st.state.keys())
        if len(st.membership.memberships) > 1:
            sig[f"station[{sid}].membership"] = list(st.membership.memberships)
    for vid in sorted(sim.vehicles):
        m = sim.vehicles[vid].membership.memberships
        if len(m) > 1:
            sig[f"vehicle[{vid}].membership"] = list(m)
    for name in ("vehicles", "stations", "bases"):
        keys = list(getattr(sim, name).keys())
        if 1 < len(keys) <= 4:
            sig[f"sim.{name}(Map)"] = keys
    if sim.vehicles:
        v0 = sim.vehicles[sorted(sim.vehicles)[0]]
        cell = h3.h3_to_parent(v0.geoid, sim.sim_h3_search_resolution)
        ring = [c for c in h3.k_ring(cell, 1) if c in sim.s_search or c == cell]
        if len(ring) > 1:
            sig["k_ring(occupied station search cells)"] = ring
    return sig


class Tap:
    """contention counters measured on a run (vacuity guard of the scenario itself)"""

    def __init__(self):
        self.c = Counter()
        self.prev = None

    def build(self):
        from nrel.hive.reporting.handler.handler import Handler

        tap = self

        class H(Handler):
            def handle(self, reports, runner_payload):
                tap.observe(reports, runner_payload)

            def close(self, runner_payload):
                pass

        return H()

    def observe(self, reports, rp):
        from nrel.hive.dispatcher.instruction_generator import assignment_ops

        sim, env = rp.s, rp.e
        c = self.c
        instr = [r.report for r in reports if r.report_type.name == "INSTRUCTION"]
        targets = Counter()
        for i in instr:
            t = i.get("station_id") or i.get("base_id")
            if t and i["instruction_type"] in ("ChargeStationInstruction", "ReserveBaseInstruction", "ChargeBaseInstruction", "DispatchStationInstruction", "DispatchBaseInstruction"):
                targets[(i["instruction_type"], t)] += 1
        if any(n > 1 for n in targets.values()):
            c["competing_instructions_same_target_same_step"] += 1
        prev = self.prev
        for i in instr:
            if i["instruction_type"] == "RepositionInstruction":
                # judged on the requests still waiting after the step (far-out customers nobody reaches within one step)
                counts = sorted(len(v) for v in sim.r_search.values())
                c["reposition_instructions"] += 1
                if len(counts) >= 2 and counts[-1] == counts[-2]:
                    c["reposition_with_demand_tied_between_cells"] += 1
        if prev is not None:
            # ranking ties seen by the charging manager on the pre-state
            for i in instr:
                if i["instruction_type"] != "DispatchStationInstruction":
                    continue
                v = prev.vehicles.get(i["vehicle_id"])
                if v is None:
                    continue
                ranks = []
                for st in prev.get_stations():
                    if not st.membership.grant_access_to_membership(v.membership):
                        continue
                    cid, rank = assignment_ops.nearest_shortest_queue_ranking(v, st, env)
                    if cid is not None:
                        ranks.append((rank, st.id))
                        per_plug = []
                        for plug in st.on_shift_access_chargers:
                            tot = st.get_total_chargers(plug)
                            ch = env.chargers.get(plug)
                            m = env.mechatronics.get(v.mechatronics_id)
                            if tot and ch is not None and m is not None and m.valid_charger(ch):
                                per_plug.append(st.enqueued_vehicle_count_for_charger(plug) / tot)
                        if st.id == i.get("station_id") and len(per_plug) > 1 and len(set(per_plug)) < len(per_plug):
                            c["plug_ranking_tied"] += 1
                if ranks:
                    best = min(r for r, _ in ranks)
                    if sum(1 for r, _ in ranks if r == best) > 1:
                        c["station_search_tied"] += 1
            arrivals = Counter()
            for vid, v in sim.vehicles.items():
                pv = prev.vehicles.get(vid)
                if pv is None:
                    continue
                a, b = pv.vehicle_state.__class__.__name__, v.vehicle_state.__class__.__name__
                if a == "DispatchStation" and b in ("ChargingStation", "ChargeQueueing"):
                    arrivals[v.vehicle_state.station_id] += 1
                if a == "DispatchBase" and b in ("ReserveBase", "Idle"):
                    arrivals["base:" + getattr(pv.vehicle_state, "base_id", "?")] += 1
            if any(n > 1 for n in arrivals.values()):
                c["two_vehicles_reach_same_target_same_step"] += 1
        enq = Counter()
        for v in sim.vehicles.values():
            s = v.vehicle_state
            if s.__class__.__name__ == "ChargeQueueing":
                enq[(s.station_id, s.charger_id, int(s.enqueue_time))] += 1
        if any(n > 1 for n in enq.values()):
            c["queued_vehicles_share_enqueue_time"] += 1
        if prev is not None:
            # a plug is granted to one of several vehicles that share an enqueue time (the tie-break decides)
            for (sid, cid, t), n in enq.items():
                pass
            prev_enq = {}
            for v in prev.vehicles.values():
                s0 = v.vehicle_state
                if s0.__class__.__name__ == "ChargeQueueing":
                    prev_enq.setdefault((s0.station_id, s0.charger_id, int(s0.enqueue_time)), []).append(v.id)
            for key, vids in prev_enq.items():
                if len(vids) > 1:
                    now_charging = [x for x in vids if sim.vehicles[x].vehicle_state.__class__.__name__ == "ChargingStation"]
                    if 0 < len(now_charging) < len(vids):
                        c["plug_granted_among_tied_queuers"] += 1
        # one vehicle named by two fleet passes of the dispatcher
        per_vehicle = Counter()
        for r in reports:
            if r.report_type.name == "INSTRUCTION":
                per_vehicle[r.report["vehicle_id"]] += 1
        multi = [v for v in sim.vehicles.values() if len(v.membership.memberships) > 1 and v.vehicle_state.__class__.__name__ == "DispatchTrip"]
        if multi and prev is not None:
            for v in multi:
                pv = prev.vehicles.get(v.id)
                if pv is not None and pv.vehicle_state.__class__.__name__ != "DispatchTrip":
                    open_by_fleet = [f for f in v.membership.memberships if any(f in r.membership.memberships for r in prev.requests.values()) or True]
                    if len(open_by_fleet) > 1:
                        c["multi_fleet_vehicle_dispatched"] += 1
        self.prev = sim


def run_scenario(name: str, counters: bool, full_step=None) -> dict:
    from . import scenarios
    from .scen import Recorder, load, scratch_dir
    from .canon import canon
    from nrel.hive.app import hive_cosim

    builder, nsteps = scenarios.BUILDERS[name]
    d = scratch_dir(f"hivemc_ord_{name}_")
    try:
        path = builder(d)
        init = scenarios.INIT_FUNCTIONS.get(name)
        # "whichever process runs it": the working directory the process is started in is, like the hash seed and the time zone, a
        # property of the process; every third schedule is launched from a directory that holds stray files named like the packaged
        # default assets
        from .scen import launch_dir_with_stray_assets

        hs = int(os.environ.get("PYTHONHASHSEED", "0") or 0)
        cwd = launch_dir_with_stray_assets(d) if hs % 3 == 1 else None
        rp = load(path, init_functions=init() if init else None, cwd=cwd)
        sig = order_signature(rp)
        rec = Recorder(keep_states=full_step is not None)
        rp.e.reporter.add_handler(rec)
        tap = Tap() if counters else None
        if tap is not None:
            tap.prev = rp.s
            rp.e.reporter.add_handler(tap.build())
        for _ in range(nsteps):
            rp = hive_cosim.crank(rp, 1).runner_payload
        stats = rp.e.reporter.get_summary_stats(rp)
        out = {
            "scenario": name,
            "signature": sig,
            "steps": [{"t": s["sim_time"], "state": s["state"], "events": s["events"], "n": s["n_events"]} for s in rec.steps],
            "stats": repr(canon(stats)),
            "counters": dict(tap.c) if tap is not None else None,
            "n_vehicles": len(rp.s.vehicles),
        }
        if full_step is not None:
            k = min(full_step, len(rec.steps) - 1)
            out["full"] = {"step": k, "state": repr(rec.steps[k]["state_full"]), "events": [repr(e) for e in rec.steps[k]["events_full"]]}
            for s in rec.steps:
                s.pop("state_full", None)
                s.pop("events_full", None)
        return out
    finally:
        shutil.rmtree(d, ignore_errors=True)


def main(argv):
    out_path = argv[1]
    names = argv[2].split(",")
    counters = "--counters" in argv
    full = None
    if "--full" in argv:
        sc, st = argv[argv.index("--full") + 1].split(":")
        full = (sc, int(st))
    res = {"hashseed": os.environ.get("PYTHONHASHSEED"), "runs": []}
    for n in names:
        res["runs"].append(run_scenario(n, counters, full[1] if full and full[0] == n else None))
    with open(out_path, "w") as f:
        json.dump(res, f)
    return 0


if __name__ == "__main__":
    sys.exit(main(sys.argv))
