"""
C11 -- timed inputs take effect exactly once, at the right step.

Every sorted request file / price table over a small time grid is written as a real CSV, loaded with the
library's own builders (UpdateRequestsFromFile.build, ChargingPriceUpdate.build, both file-reading modes) and
run through Update.apply_update for a few steps; the observed add / cancel events and station prices are
compared, step by step, with a reference written here (a list scan and a dict).
"""
from __future__ import annotations

import itertools
import os
import shutil
import tempfile
from typing import Any, Dict, List, Tuple

import h3
import immutables

from . import seed, tier
from .enumrun import pmap, rotate
from .report import Check, Finding, log
from .worlds import CapturingReporter, _chargers, _mechatronics, build_sim, make_config, mk_station, sites

from nrel.hive.model.roadnetwork.haversine_roadnetwork import HaversineRoadNetwork
from nrel.hive.runner.environment import Environment
from nrel.hive.runner.runner_payload import RunnerPayload
from nrel.hive.state.simulation_state.update.cancel_requests import CancelRequests
from nrel.hive.state.simulation_state.update.charging_price_update import ChargingPriceUpdate
from nrel.hive.state.simulation_state.update.step_simulation import StepSimulation
from nrel.hive.state.simulation_state.update.update import Update
from nrel.hive.state.simulation_state.update.update_requests_from_file import UpdateRequestsFromFile
from pkg_resources import resource_filename

CHARGERS_FILE = resource_filename("nrel.hive.resources.chargers", "default_chargers.csv")
NSTEPS = 9


def scratch() -> str:
    base = "/dev/shm" if os.path.isdir("/dev/shm") else None
    return tempfile.mkdtemp(prefix="hivemc_c11_", dir=base)


# ------------------------------------------------------------------------------------------ requests


def request_time_grid(step: int, start: int, timeout: int) -> List[int]:
    pts = set()
    lo = start - 2 * timeout
    hi = start + 3 * step
    half = max(1, step // 2)
    t = lo
    while t <= hi:
        pts.add(t)
        t += half
    for k in range(-1, 4):
        b = start + k * step
        pts.update((b - 1, b, b + 1))
    return sorted(p for p in pts if p >= 0)


def request_cases(step: int, start: int, timeout: int, maxlen: int):
    grid = request_time_grid(step, start, timeout)
    # thin the grid when it is long (large timeouts): keep boundary points and every other interior point
    if len(grid) > 16:
        keep = set(grid[:3] + grid[-8:])
        keep.update(grid[::3])
        grid = sorted(keep)
    for n in range(1, maxlen + 1):
        for combo in itertools.combinations_with_replacement(grid, n):
            yield combo


# request ids are free text: in arrival order, against it, and numbers whose text order differs from their numeric order
ID_SCHEMES = {
    "arrival_order": lambda i, n: str(i),
    "reverse_order": lambda i, n: str(n - 1 - i),
    "digit_boundary": lambda i, n: str(8 + i),  # "8", "9", "10", "11": text order 10 < 11 < 8 < 9
    # ids in arrival order, and the file also has the OPTIONAL columns (fleet_id, allows_pooling) with every cell left blank
    "blank_optional_columns": lambda i, n: str(i),
    # ids in arrival order, the file saved with a UTF-8 byte order mark (what spreadsheet programs write; the shipped vehicles file has one)
    "byte_order_mark": lambda i, n: str(i),
}


def ref_requests(deps: Tuple[int, ...], step: int, start: int, timeout: int, nsteps: int, scheme: str = "arrival_order"):
    """per step index: (ids added, ids cancelled); request i has id ID_SCHEMES[scheme](i, n). file order = sorted deps."""
    label = ID_SCHEMES[scheme]
    n = len(deps)
    adds = [[] for _ in range(nsteps)]
    cancels = [[] for _ in range(nsteps)]
    for i, dep in enumerate(deps):
        admitted = None
        for k in range(nsteps):
            t = start + k * step
            if admitted is None:
                if dep < t:
                    if dep + timeout <= t:
                        break  # expired on arrival: never enters
                    admitted = k
                    adds[k].append(label(i, n))
            else:
                if t >= dep + timeout:
                    cancels[k].append(label(i, n))
                    break
    return adds, cancels


def write_requests(path: str, deps: Tuple[int, ...], scheme: str = "arrival_order"):
    S = sites()
    olat, olon = h3.h3_to_geo(S["A"])
    dlat, dlon = h3.h3_to_geo(S["M1"])
    with open(path, "w") as f:
        extra = scheme == "blank_optional_columns"
        if scheme == "byte_order_mark":
            f.write("\ufeff")
        f.write("request_id,o_lat,o_lon,d_lat,d_lon,departure_time,passengers" + (",fleet_id,allows_pooling" if extra else "") + "\n")
        for i, d in enumerate(deps):
            f.write(f"{ID_SCHEMES[scheme](i, len(deps))},{olat!r},{olon!r},{dlat!r},{dlon!r},{d},1" + (",," if extra else "") + "\n")


def run_updates(cfg, req_file, price_file, lazy: bool, stations, nsteps: int):
    env = Environment(config=cfg, mechatronics=_mechatronics(), chargers=_chargers(), reporter=CapturingReporter())
    rn = HaversineRoadNetwork(sim_h3_resolution=15)
    sim = build_sim(env, rn, stations=[mk(env, rn) for mk in stations], start=int(cfg.sim.start_time))
    # the update functions are built the way the scenario loader builds them: Update.build from a configuration that names the
    # files, the reading mode and the run's start time (a direct call of the two builders is a path no scenario takes)
    cfg_files = cfg._replace(
        input_config=cfg.input_config._replace(requests_file=req_file, rate_structure_file=None, charging_price_file=price_file, chargers_file=CHARGERS_FILE),
        global_config=cfg.global_config._replace(lazy_file_reading=lazy),
    )
    env = env._replace(config=cfg_files)
    upd = Update.build(cfg_files, ())
    rp = RunnerPayload(sim, env, upd)
    per_step = []
    try:
        for k in range(nsteps):
            env.reporter.take()
            t = int(rp.s.sim_time)
            rp = rp.u.apply_update(rp)
            reports = env.reporter.take()
            adds = [r.report["request_id"] for r in reports if r.report_type.name == "ADD_REQUEST_EVENT"]
            cancels = [r.report["request_id"] for r in reports if r.report_type.name == "CANCEL_REQUEST_EVENT"]
            prices = {
                (sid, cid): cs.price_per_kwh for sid, s in rp.s.stations.items() for cid, cs in s.state.items()
            }
            per_step.append((t, adds, cancels, prices, int(rp.s.sim_time), sorted(rp.s.requests.keys())))
    finally:
        for fn in rp.u.pre_step_update:
            rd = getattr(fn, "reader", None)
            if rd is not None:
                rd.close()
    return per_step


def _req_shard(shard) -> Dict[str, Any]:
    step, start, timeout, maxlen = shard
    d = scratch()
    out = {"cases": 0, "runs": 0, "nontrivial": 0, "findings": {}, "samples": []}
    try:
        cfg = make_config(step=step, cancel=timeout, start=start, end=start + 100 * step)
        req_file = os.path.join(d, "req.csv")
        for deps in request_cases(step, start, timeout, maxlen):
            for scheme in (("arrival_order", "blank_optional_columns", "byte_order_mark") if len(deps) < 2 else tuple(ID_SCHEMES)):
                out["cases"] += 1
                write_requests(req_file, deps, scheme)
                want_adds, want_cancels = ref_requests(deps, step, start, timeout, NSTEPS, scheme)
                if any(want_adds):
                    out["nontrivial"] += 1
                for lazy in (False, True):
                    out["runs"] += 1
                    try:
                        got = run_updates(cfg, req_file, None, lazy, [], NSTEPS)
                    except Exception as e:
                        out["findings"].setdefault(("request_exception", type(e).__name__), (f"{type(e).__name__}: {e}", {"deps": list(deps), "lazy": lazy, "ids": scheme}))
                        continue
                    for k, (t, adds, cancels, _, t_after, waiting) in enumerate(got):
                        if sorted(adds) != sorted(want_adds[k]):
                            kind = "late_or_missing" if len(adds) < len(want_adds[k]) else "early_or_extra"
                            out["findings"].setdefault(("admission", kind), (f"step beginning {t}: admitted {adds}, expected {want_adds[k]} (departures {deps}, timeout {timeout}, step {step})", {"deps": list(deps), "lazy": lazy, "ids": scheme}))
                            break
                        if sorted(cancels) != sorted(want_cancels[k]):
                            kind = "late_or_missing" if len(cancels) < len(want_cancels[k]) else "early_or_extra"
                            out["findings"].setdefault(("cancellation", kind), (f"step beginning {t}: cancelled {cancels}, expected {want_cancels[k]} (departures {deps}, timeout {timeout}, step {step})", {"deps": list(deps), "lazy": lazy, "ids": scheme}))
                            break
                        if t_after != t + step:
                            out["findings"].setdefault(("clock",), (f"step beginning {t} ended at {t_after}", {"deps": list(deps), "lazy": lazy, "ids": scheme}))
                            break
                if len(out["samples"]) < 1 and any(want_adds) and any(want_cancels):
                    out["samples"].append({"step": step, "start": start, "timeout": timeout, "departures": list(deps), "adds_per_step": want_adds, "cancels_per_step": want_cancels})
    finally:
        shutil.rmtree(d, ignore_errors=True)
    out["findings"] = [(list(k), m, dict(rp, step=step, start=start, timeout=timeout, kind="requests")) for k, (m, rp) in out["findings"].items()]
    return out


# ------------------------------------------------------------------------------------------ prices


def price_world():
    """s0 {DCFC, LEVEL_2} on A; s1 {DCFC} on N1 (same res-7 search cell, different res-9 cell); s2 {DCFC} on X1 (other search cell)"""
    S = sites()
    mks = [
        lambda env, rn: mk_station(env, rn, "s0", S["A"], {"DCFC": 1, "LEVEL_2": 1}),
        lambda env, rn: mk_station(env, rn, "s1", S["N1"], {"DCFC": 1}),
        lambda env, rn: mk_station(env, rn, "s2", S["X1"], {"DCFC": 1}),
    ]
    cells = {"s0": S["A"], "s1": S["N1"], "s2": S["X1"]}
    plugs = {"s0": ("DCFC", "LEVEL_2"), "s1": ("DCFC",), "s2": ("DCFC",)}
    targets_geo = {
        "coarse_all": h3.h3_to_parent(S["A"], 5),  # contains all three stations
        "search_cell": h3.h3_to_parent(S["A"], 7),  # the search resolution: s0 and s1
        "fine_s0_only": h3.h3_to_parent(S["A"], 9),  # finer than the search cell: only s0
        "elsewhere": h3.h3_to_parent(S["F2"], 9),  # no station inside
    }
    for name, cell in targets_geo.items():
        inside = sorted(s for s, g in cells.items() if h3.h3_to_parent(g, h3.h3_get_resolution(cell)) == cell)
        want = {"coarse_all": ["s0", "s1", "s2"], "search_cell": ["s0", "s1"], "fine_s0_only": ["s0"], "elsewhere": []}[name]
        if inside != want:
            raise RuntimeError(f"price world geometry: {name} contains {inside}, wanted {want}")
    return mks, cells, plugs, targets_geo


def price_rows(family: str, step: int, start: int):
    _, cells, plugs, targets_geo = price_world()
    times = [start - 1, start, start + step - 1, start + step, start + 2 * step]
    times = [t for t in times if t >= 0]
    targets = ["s0", "s1", "nosuch"] if family == "id" else list(targets_geo.values())
    rows = []
    for t in times:
        for tg in targets:
            for plug in ("DCFC", "LEVEL_2", "LEVEL_1"):
                rows.append((t, tg, plug))
    return rows


def price_cases(family: str, step: int, start: int, maxlen: int):
    """rows carry their price: (time, target, plug, price); every table once with non-round positive prices and, when it
    has more than one row, once more with a ZERO price in its last row (a free-charging window is a valid price)"""
    rows = price_rows(family, step, start)
    for n in range(1, maxlen + 1):
        for combo in itertools.combinations(range(len(rows)), n):
            seq = [rows[i] + (price_of(k),) for k, i in enumerate(combo)]  # already time-sorted
            yield tuple(seq)
            if n > 1:
                yield tuple(seq[:-1] + [seq[-1][:3] + (0.0,)])


def price_of(i: int) -> float:
    return round(0.137 + 0.101 * i, 6)


def ref_prices(seq, family: str, step: int, start: int, nsteps: int):
    """per step: (station, plug) -> set of admissible prices (one element).  Every row takes effect in the first step that
    begins after its time stamp; rows that become due in the same step take effect in the order of the (time-sorted) file,
    whichever keys -- station ids, overlapping regions -- they name the station through: the price in force afterwards is
    that of the LATEST row, so that the outcome does not depend on the step length.  (Round 1 admitted either order
    across different keys; wave 6 showed that this let a step-length dependent outcome pass.)"""
    _, cells, plugs, _ = price_world()
    cur = {(s, p): {0.0} for s, ps in plugs.items() for p in ps}
    applied = [False] * len(seq)
    out = []
    for k in range(nsteps):
        t = start + k * step
        due: Dict[Tuple[str, str], Dict[str, float]] = {}
        for i, (rt, tg, plug, price) in enumerate(seq):
            if applied[i] or not rt < t:
                continue
            applied[i] = True
            if family == "id":
                sts = [tg] if tg in cells else []
            else:
                res = h3.h3_get_resolution(tg)
                sts = [s for s, g in cells.items() if h3.h3_to_parent(g, res) == tg]
            for s in sts:
                if (s, plug) in cur:
                    due[(s, plug)] = {"latest": price}  # file order: the later row wins, whatever key it came through
        for key, by_target in due.items():
            cur[key] = set(by_target.values())
        out.append({k2: set(v) for k2, v in cur.items()})
    return out


def _admissible(got: float, allowed) -> bool:
    return any(abs(got - a) <= 1e-12 for a in allowed)


def write_prices(path: str, seq, family: str, bom: bool = False):
    with open(path, "w") as f:
        if bom:
            f.write("\ufeff")  # saved with a UTF-8 byte order mark
        f.write("time,%s,charger_id,price_kwh\n" % ("station_id" if family == "id" else "geoid"))
        for i, (t, tg, plug, price) in enumerate(seq):
            f.write(f"{t},{tg},{plug},{price}\n")


def _prime_prices(d: str):
    """ANOTHER simulation in this very process first: the same regions, other stations inside them (a parameter study, a batch
    worker running several scenarios).  Whatever the library remembers per region across simulations then prices the wrong
    stations in every enumerated table below."""
    S = sites()
    _, _, _, targets_geo = price_world()
    others = [lambda env, rn: mk_station(env, rn, "q0", S["N2"], {"DCFC": 1}), lambda env, rn: mk_station(env, rn, "q1", S["X2"], {"DCFC": 1})]
    cfg = make_config(step=60, start=0, end=6000)
    req_file = os.path.join(d, "prime_req.csv")
    write_requests(req_file, ())
    pf = os.path.join(d, "prime_prices.csv")
    write_prices(pf, tuple((0, g, "DCFC", 0.5) for g in targets_geo.values()), "geoid")
    for lazy in (False, True):
        run_updates(cfg, req_file, pf, lazy, others, 2)


def _price_shard(shard) -> Dict[str, Any]:
    family, step, start, maxlen, part, nparts = shard
    d = scratch()
    out = {"cases": 0, "runs": 0, "nontrivial": 0, "findings": {}, "samples": []}
    mks, cells, plugs, _ = price_world()
    try:
        _prime_prices(d)
        cfg = make_config(step=step, start=start, end=start + 100 * step)
        req_file = os.path.join(d, "req.csv")
        write_requests(req_file, ())
        pf = os.path.join(d, "prices.csv")
        for ci, seq in enumerate(price_cases(family, step, start, maxlen)):
            if ci % nparts != part:
                continue
            out["cases"] += 1
            write_prices(pf, seq, family)
            want = ref_prices(seq, family, step, start, 5)
            if any(v != {0.0} for v in want[-1].values()):
                out["nontrivial"] += 1
            # (reading mode, saved with a byte order mark): tables of one row are also read from a file that starts with a BOM
            for lazy, bom in ((False, False), (True, False)) + (((False, True), (True, True)) if len(seq) == 1 else ()):
                out["runs"] += 1
                covers_all = None
                write_prices(pf, seq, family, bom)
                try:
                    got = run_updates(cfg, req_file, pf, lazy, mks, 5)
                except Exception as e:
                    out["findings"].setdefault(
                        ("price_exception", type(e).__name__, family) + (("byte_order_mark",) if bom else ()),
                        (f"{type(e).__name__}: {e} while applying price table {seq} (step {step}, start {start}{', file saved with a byte order mark' if bom else ''}): the run stops", {"seq": [list(r) for r in seq], "lazy": lazy, "bom": bom}),
                    )
                    continue
                for k, (t, _, _, prices, _, _) in enumerate(got):
                    if any(not _admissible(prices[key], want[k][key]) for key in want[k]):
                        diff = {f"{a}/{b}": (prices[(a, b)], sorted(want[k][(a, b)])) for (a, b) in want[k] if not _admissible(prices[(a, b)], want[k][(a, b)])}
                        # discriminate: a station that the row does not name got the price / the named one did not
                        named = set()
                        for i, (rt, tg, plug, _price) in enumerate(seq):
                            if family == "id":
                                named.update([tg] if tg in cells else [])
                            else:
                                res = h3.h3_get_resolution(tg)
                                named.update(s for s, g in cells.items() if h3.h3_to_parent(g, res) == tg)
                        kind = "unnamed_station_repriced" if any(k2.split("/")[0] not in named for k2 in diff) else "wrong_price_or_time"
                        out["findings"].setdefault(
                            ("price", kind, family) + (("byte_order_mark",) if bom else ()),
                            (f"after the step beginning {t}: (got, expected) {diff} for table {seq} (step {step}, start {start}{', file saved with a byte order mark' if bom else ''})", {"seq": [list(r) for r in seq], "lazy": lazy, "bom": bom}),
                        )
                        break
            if len(out["samples"]) < 1 and len(seq) >= 2:
                out["samples"].append({"family": family, "step": step, "start": start, "rows": [list(r) for r in seq], "expected_after_steps": [{f"{a}/{b}": sorted(v) for (a, b), v in w.items()} for w in want]})
    finally:
        shutil.rmtree(d, ignore_errors=True)
    out["findings"] = [(list(k), m, dict(rp, step=step, start=start, family=family, kind="prices")) for k, (m, rp) in out["findings"].items()]
    return out


def _default_price_case() -> List[Tuple[tuple, str, dict]]:
    """no price file: every price is 0 and stays 0"""
    cfg = make_config(step=60, start=0, end=6000)
    d = scratch()
    try:
        req_file = os.path.join(d, "req.csv")
        write_requests(req_file, ())
        mks, _, _, _ = price_world()
        got = run_updates(cfg, req_file, None, False, mks, 3)
        for t, _, _, prices, _, _ in got:
            if any(v != 0.0 for v in prices.values()):
                return [(("price", "default_not_zero", "none"), f"without a price file prices are {prices}", {"kind": "default"})]
    finally:
        shutil.rmtree(d, ignore_errors=True)
    return []


def c11() -> int:
    c = Check("C11", "bounded exhaustive enumeration of request files and price tables through the real update functions vs a reference scan")
    quick = tier() == "quick"
    maxlen = 3 if quick else 4
    shards = []
    for step in (1, 7, 60, 90):
        for start in (0, 30, 3600):
            for timeout in sorted({max(1, step // 2), step, 2 * step + 1, 10 * step}):
                shards.append((step, start, timeout, maxlen if step in (60, 90) or not quick else 2))
    rres = pmap(_req_shard, rotate(shards, seed()))
    pshards = []
    pmax = 2 if quick else 3
    nparts = 2 if quick else 12
    for family in ("id", "geoid"):
        for step in (1, 60, 90):
            for start in (0, 30, 3600):
                for part in range(nparts):
                    pshards.append((family, step, start, pmax, part, nparts))
    pres = pmap(_price_shard, rotate(pshards, seed()))
    for sig, msg, rp in _default_price_case():
        c.add(Finding("C11", sig, msg, dict(rp, engine="enum_timed")))
    cases = sum(r["cases"] for r in rres + pres)
    runs = sum(r["runs"] for r in rres + pres)
    nontrivial = sum(r["nontrivial"] for r in rres + pres)
    for r in rres + pres:
        for sig, msg, rp in r["findings"]:
            c.add(Finding("C11", sig, msg, dict(rp, engine="enum_timed")))
    c.coverage.update(
        {
            "states": cases,
            "transitions": runs * NSTEPS,
            "traces_validated_against_impl": runs,
            "evaluations": runs,
            "distinct_nontrivial": nontrivial,
            "rule": f"request files: every non-decreasing sequence of <= {maxlen} departure times over a grid (half-step units from start-2*timeout to start+3*step, +-1 s around each step boundary) for step in {{1,7,60,90}}, start in {{0,30,3600}}, 4 time-outs, both file-reading modes; "
            f"price tables: every time-sorted subset of <= {pmax} rows from time x target x plug (by station id incl. an unknown id; by region: coarse / search-resolution / finer-than-search / empty) for step in {{1,60,90}}, 3 start times, both reading modes; non-trivial = at least one request admitted / one price changed in the reference",
            "request_cases": sum(r["cases"] for r in rres),
            "price_cases": sum(r["cases"] for r in pres),
            "samples": [s for r in rres for s in r["samples"]][:2] + [s for r in pres for s in r["samples"]][:2],
        }
    )
    c.exhaustive = True
    c.assumptions += ["files are sorted by time (the statement's precondition)", "departure times >= 0 (Request.build asserts it)"]
    log(f"  C11: {sum(r['cases'] for r in rres)} request files, {sum(r['cases'] for r in pres)} price tables, {runs} runs")
    return c.finish()


def replay(body) -> int:
    rp = body["replay"]
    d = scratch()
    hit = False
    try:
        if rp["kind"] == "requests":
            cfg = make_config(step=rp["step"], cancel=rp["timeout"], start=rp["start"], end=rp["start"] + 100 * rp["step"])
            f = os.path.join(d, "req.csv")
            write_requests(f, tuple(rp["deps"]), rp.get("ids", "arrival_order"))
            want_a, want_c = ref_requests(tuple(rp["deps"]), rp["step"], rp["start"], rp["timeout"], NSTEPS, rp.get("ids", "arrival_order"))
            got = run_updates(cfg, f, None, rp["lazy"], [], NSTEPS)
            for k, (t, adds, cancels, _, _, _) in enumerate(got):
                print(f"step {t}: adds {adds} (expected {want_a[k]}) cancels {cancels} (expected {want_c[k]})")
                hit = hit or sorted(adds) != sorted(want_a[k]) or sorted(cancels) != sorted(want_c[k])
        elif rp["kind"] == "prices":
            cfg = make_config(step=rp["step"], start=rp["start"], end=rp["start"] + 100 * rp["step"])
            f = os.path.join(d, "req.csv")
            write_requests(f, ())
            pf = os.path.join(d, "p.csv")
            seq = tuple(tuple(r) for r in rp["seq"])
            write_prices(pf, seq, rp["family"], rp.get("bom", False))
            print(repr(open(pf).read()))
            want = ref_prices(seq, rp["family"], rp["step"], rp["start"], 5)
            mks, _, _, _ = price_world()
            try:
                got = run_updates(cfg, f, pf, rp["lazy"], mks, 5)
                for k, (t, _, _, prices, _, _) in enumerate(got):
                    print(f"step {t}: prices {prices}\n      expected {want[k]}")
                    hit = hit or any(not _admissible(prices[key], want[k][key]) for key in want[k])
            except Exception as e:
                print(f"{type(e).__name__}: {e}")
                hit = True
        else:
            hit = bool(_default_price_case())
    finally:
        shutil.rmtree(d, ignore_errors=True)
    if hit:
        print(f"VIOLATION property=C11 replay={body.get('_path')}")
        return 1
    print("not reproduced on this tree")
    return 0
