"""
C16, second sentence, seen by the explorer itself: every node of an FSX exploration is rebuilt by replaying its event history
through the real step function, and the state reached must have the key recorded when the node was discovered.  On the
unchanged tree that holds for every one of the millions of replays (it is the harness's own determinism guard, exit 2
elsewhere).  In the C16 check a divergence is reported as what it is: the same history, stepped twice in one process, gave two
different simulation states -- something outside the SimulationState (a module-level cache, a long-lived object) carried
information from one execution into the other.
"""
from __future__ import annotations

from .fsx import HarnessError, explore
from .report import Check, Finding, log


def guarded(c: Check, run, world_spec, monitor_spec, **kw):
    try:
        return run(c, world_spec, monitor_spec, **kw)
    except HarnessError as e:
        msg = str(e)
        if "different state key" not in msg:
            raise
        name = world_spec[2].get("name") or world_spec[0].split(".")[-1] + ":" + world_spec[1]
        log(f"  [{name}] replay divergence: {msg[:300]}")
        c.add(Finding("C16", ("not_repeatable", "replay_divergence", name),
                      f"the same event history, stepped twice in one process, reached two different simulation states ({msg[:400]})",
                      {"engine": "fsx_divergence", "world_spec": list(world_spec[:2]) + [world_spec[2]], "monitor_spec": list(monitor_spec[:2]) + [monitor_spec[2]],
                       "K": kw.get("K"), "H": kw.get("H")}))
        return None


def replay(body) -> int:
    from . import ncpu

    rp = body["replay"]
    ws = (rp["world_spec"][0], rp["world_spec"][1], rp["world_spec"][2])
    ms = (rp["monitor_spec"][0], rp["monitor_spec"][1], rp["monitor_spec"][2])
    try:
        explore(ws, ms, K=rp["K"], H=rp["H"], workers=ncpu(), seed=0, log=lambda *_: None, max_states=None)
    except HarnessError as e:
        print(str(e)[:600])
        print(f"VIOLATION property=C16 replay={body.get('_path')}")
        return 1
    print("not reproduced on this tree: every replayed history reached the state recorded at its discovery")
    return 0
