"""replay dispatcher for counterexamples of the non-FSX engines"""


def replay(body) -> int:
    eng = body["replay"].get("engine")
    if eng == "routes":
        from . import enum_routes

        return enum_routes.replay(body)
    import importlib

    mod = importlib.import_module("hivemc." + eng)
    return mod.replay(body)
