"""
C08 -- location indexes always agree with the entities.

(a) ENUM to closure: breadth-first search over real SimulationState values with the add / modify / remove / pop
    operations of simulation_state_ops as transitions; the abstract state (entity id -> cell or absent) is finite,
    so the search runs until no new abstract state appears.  After every operation the eight index maps must be
    exactly the maps derived from the entities (no stale, duplicated, missing or empty entries).
(b) the same oracle as an FSX monitor on every state of W-res and W-req (moves, pickups, cancellations through
    the real step) -- see checks.c08.
"""
from __future__ import annotations

import dataclasses
import time
from collections import deque
from typing import Any, Dict, List, Tuple

from returns.result import Failure

from . import seed, tier
from .canon import index_mismatches
from .report import Check, Finding, log
from .worlds import build_sim, make_config, make_env, mk_base, mk_station, mk_vehicle, sites

from nrel.hive.model.request import Request
from nrel.hive.model.roadnetwork.haversine_roadnetwork import HaversineRoadNetwork
from nrel.hive.model.sim_time import SimTime
from nrel.hive.state.simulation_state import simulation_state_ops as ops

KINDS = {"v": "vehicles", "r": "requests", "s": "stations", "b": "bases"}


class Universe:
    def __init__(self, nv=2, nr=2, ns=1, nb=1, search_res: int = 7):
        S = sites()
        self.cells = [S["A"], S["N1"], S["X1"]]  # g1, g2 (same search cell as g1), g3 (other search cell)
        self.cfg = make_config(search_res=search_res)
        self.env = make_env(self.cfg)
        self.rn = HaversineRoadNetwork(sim_h3_resolution=15)
        self.ids = [f"v{i}" for i in range(nv)] + [f"r{i}" for i in range(nr)] + [f"s{i}" for i in range(ns)] + [f"b{i}" for i in range(nb)]
        self.empty = build_sim(self.env, self.rn)
        self._ent: Dict[Tuple[str, int], Any] = {}

    def entity(self, eid: str, ci: int):
        k = (eid, ci)
        e = self._ent.get(k)
        if e is None:
            cell = self.cells[ci]
            if eid[0] == "v":
                e = mk_vehicle(self.env, self.rn, eid, cell)
            elif eid[0] == "r":
                e = Request.build(eid, cell, sites()["M2"], self.rn, SimTime.build(0), 1, False)
            elif eid[0] == "s":
                e = mk_station(self.env, self.rn, eid, cell, {"DCFC": 1})
            else:
                e = mk_base(self.rn, eid, cell, stalls=1)
            self._ent[k] = e
        return e

    def abstract(self, sim) -> Tuple:
        out = []
        for eid in self.ids:
            coll = getattr(sim, KINDS[eid[0]])
            e = coll.get(eid)
            out.append(-1 if e is None else self.cells.index(e.geoid))
        return tuple(out)

    def operations(self, sim) -> List[Tuple[str, str, int]]:
        """(op, id, cell index) -- every operation of the alphabet, whether or not it must succeed"""
        res = []
        for eid in self.ids:
            for ci in range(len(self.cells)):
                res.append(("add", eid, ci))
                res.append(("modify", eid, ci))
            res.append(("remove", eid, -1))
            if eid[0] == "v":
                res.append(("pop", eid, -1))
                res.append(("relink", eid, -1))  # same cell, another link id (a vehicle that starts a new leg without leaving its cell)
        return res

    def apply(self, sim, op, eid, ci):
        k = eid[0]
        if op == "add":
            e = self.entity(eid, ci)
            return {"v": ops.add_vehicle_safe, "r": ops.add_request_safe, "s": ops.add_station_safe, "b": ops.add_base_safe}[k](sim, e)
        if op == "modify":
            e = self.entity(eid, ci)
            return {"v": ops.modify_vehicle_safe, "r": ops.modify_request_safe, "s": ops.modify_station_safe, "b": ops.modify_base_safe}[k](sim, e)
        if op == "remove":
            return {"v": ops.remove_vehicle_safe, "r": ops.remove_request_safe, "s": ops.remove_station_safe, "b": ops.remove_base_safe}[k](sim, eid)
        if op == "relink":
            cur = sim.vehicles.get(eid)
            if cur is None:
                from nrel.hive.util.exception import SimulationStateError

                return Failure(SimulationStateError("vehicle absent"))
            from nrel.hive.model.entity_position import EntityPosition

            other = self.cells[(self.cells.index(cur.geoid) + 1) % len(self.cells)]
            new_link = f"{cur.geoid}-{other}" if cur.position.link_id != f"{cur.geoid}-{other}" else f"{other}-{cur.geoid}"
            return ops.modify_vehicle_safe(sim, cur.modify_position(EntityPosition(new_link, cur.geoid)))
        if op == "pop":
            r = ops.pop_vehicle_safe(sim, eid)
            if isinstance(r, Failure):
                return r
            s2, veh = r.unwrap()
            if veh.id != eid:
                raise AssertionError("pop returned another vehicle")
            from returns.result import Success

            return Success(s2)
        raise ValueError(op)


def prime(search_res: int = 9):
    """exercise every index operation once under ANOTHER search resolution first, in this very process: anything the
    library remembers across SimulationStates (module-level memos keyed without the resolution) then shows up as a wrong
    search index in the closure below, on every run"""
    U = Universe(1, 1, 1, 1, search_res=search_res)
    sim = U.empty
    for eid in U.ids:
        for seq in ((("add", 0), ("modify", 1), ("modify", 2), ("modify", 0), ("remove", -1)),):
            for op, ci in seq:
                try:
                    r = U.apply(sim, op, eid, ci)
                    if not isinstance(r, Failure):
                        sim = r.unwrap()
                except Exception:
                    pass


def closure(nv, nr, ns, nb, rot: int = 0):
    prime()
    U = Universe(nv, nr, ns, nb)
    start = U.empty
    seen = {U.abstract(start): start}
    queue = deque([((), start)])
    nops = 0
    nok = 0
    findings: Dict[tuple, Tuple[str, list]] = {}
    samples = []
    maxdepth = 0
    while queue:
        hist, sim = queue.popleft()
        maxdepth = max(maxdepth, len(hist))
        a = U.abstract(sim)
        oplist = U.operations(sim)
        if rot:
            r = rot % len(oplist)
            oplist = oplist[r:] + oplist[:r]
        for op, eid, ci in oplist:
            present = a[U.ids.index(eid)] != -1
            here = a[U.ids.index(eid)]
            if op == "add" and present:
                continue  # re-adding an id that is present is outside the alphabet (no defined meaning)
            nops += 1
            try:
                res = U.apply(sim, op, eid, ci)
            except Exception as e:
                findings.setdefault(("exception", op, eid[0], type(e).__name__), (f"{op} {eid} raised {type(e).__name__}: {e}", list(hist) + [(op, eid, ci)]))
                continue
            failed = isinstance(res, Failure)
            must_fail = (op in ("modify", "remove", "pop", "relink") and not present) or (op == "modify" and eid[0] in "sb" and present and ci != here)
            if must_fail and not failed:
                what = "moved" if present else "absent_id_accepted"
                findings.setdefault((what, op, eid[0]), (f"{op} {eid} -> cell {ci} succeeded on state {a} (must be refused)", list(hist) + [(op, eid, ci)]))
            if failed:
                if not must_fail:
                    findings.setdefault(("refused", op, eid[0]), (f"{op} {eid} -> cell {ci} was refused on state {a}: {res.failure()}", list(hist) + [(op, eid, ci)]))
                continue
            nok += 1
            s2 = res.unwrap()
            bad = index_mismatches(s2)
            for name, kind, cell, have, want in bad:
                findings.setdefault(("index", name[0], name.split("_")[1], kind, op), (f"after {op} {eid} -> cell {ci} on {a}: {name}[{cell}] = {have}, entities say {want}", list(hist) + [(op, eid, ci)]))
            a2 = U.abstract(s2)
            want_a = list(a)
            i = U.ids.index(eid)
            if not must_fail:
                want_a[i] = ci if op in ("add", "modify") else (here if op == "relink" else -1)
            if tuple(want_a) != a2:
                findings.setdefault(("entities", op, eid[0]), (f"after {op} {eid} -> cell {ci} on {a} the entities are at {a2}, expected {tuple(want_a)}", list(hist) + [(op, eid, ci)]))
            if bad:
                continue  # error states are not expanded
            if a2 not in seen:
                seen[a2] = s2
                queue.append((hist + ((op, eid, ci),), s2))
                if len(samples) < 2 and len(hist) >= 4:
                    samples.append([list(x) for x in hist + ((op, eid, ci),)])
            else:
                # differential oracle: a state reached another way has the same indexes (they are a function of the entities)
                other = seen[a2]
                for nm in ("v_locations", "r_locations", "s_locations", "b_locations", "v_search", "r_search", "s_search", "b_search"):
                    if dict(getattr(other, nm)) != dict(getattr(s2, nm)):
                        findings.setdefault(("history_dependent", nm), (f"{nm} differs between two histories reaching {a2}", list(hist) + [(op, eid, ci)]))
    space = (len(U.cells) + 1) ** len(U.ids)
    return {"abstract_states": len(seen), "space": space, "ops": nops, "ok": nok, "maxdepth": maxdepth, "findings": findings, "samples": samples, "ids": U.ids}


def bulk_load() -> List[Tuple[tuple, str]]:
    """a whole fleet added in ONE batch through add_entities / add_entities_safe (what the vehicle initialiser does): 150 vehicles on
    30 stands of three search cells, listed stand after stand in rounds, so that the vehicles of one cell are never adjacent"""
    U = Universe(1, 1, 1, 1)
    S = sites()
    import h3

    stands = []
    for name in ("A", "N1", "N2", "X1", "X2", "F1"):
        stands += list(h3.k_ring(S[name], 1))[:5]
    vehicles = [mk_vehicle(U.env, U.rn, f"w{k:03d}", stands[k % len(stands)]) for k in range(150)]
    out = []
    for label, fn in (("add_entities", lambda: ops.add_entities(U.empty, vehicles)), ("add_entities_safe", lambda: ops.add_entities_safe(U.empty, vehicles).unwrap())):
        try:
            sim = fn()
        except Exception as e:
            out.append((("exception", "bulk_load", label), f"{label} of 150 vehicles raised {type(e).__name__}: {e}"))
            continue
        if len(sim.vehicles) != 150:
            out.append((("entities", "bulk_load", label), f"{label}: {len(sim.vehicles)} vehicles in the simulation after adding 150"))
        for name, kind, cell, have, want in index_mismatches(sim)[:1]:
            out.append((("index", name[0], name.split("_")[1], kind, "bulk_load"), f"after {label} of 150 vehicles on 30 stands: {name}[{cell}] = {have}, entities say {want}"))
    return out


def c08_enum(c: Check):
    quick = tier() == "quick"
    shape = (2, 2, 2, 1) if quick else (2, 2, 2, 2)
    t0 = time.time()
    r = closure(*shape, rot=seed())
    for sig, (msg, hist) in r["findings"].items():
        c.add(Finding("C08", sig, msg, {"engine": "enum_index", "shape": list(shape), "ops": [list(x) for x in hist]}))
    for sig, msg in bulk_load():
        c.add(Finding("C08", sig, msg, {"engine": "enum_index", "bulk_load": True}))
    cov = c.coverage
    cov["bulk_load"] = "150 vehicles on 30 stands of 3 search cells added in one batch (add_entities, add_entities_safe), indexes compared with the entities"
    cov["states"] = cov.get("states", 0) + r["abstract_states"]
    cov["transitions"] = cov.get("transitions", 0) + r["ops"]
    cov["traces_validated_against_impl"] = cov.get("traces_validated_against_impl", 0) + r["ops"]
    cov["evaluations"] = r["ops"]
    cov["distinct_nontrivial"] = r["abstract_states"]
    cov["rule"] = (
        f"BFS to closure over SimulationState values: entities {r['ids']} on 3 cells (g1, g2 in g1's search cell, g3 in another) or absent; operations add / modify-to-each-cell / remove / pop / relink (same cell, another link id), "
        "also on absent ids and station/base moves (must be refused); oracle after every operation: the 8 index maps equal the maps derived from the entities, failed operations change nothing, "
        "states reached by different histories have identical indexes; distinct = abstract states (id -> cell|absent)"
    )
    cov["closure_reached"] = r["abstract_states"] == r["space"]
    cov["abstract_state_space"] = r["space"]
    cov["successful_operations"] = r["ok"]
    cov["max_history_length"] = r["maxdepth"]
    cov.setdefault("samples", [])
    cov["samples"] += [{"operation_history": s} for s in r["samples"]]
    log(f"  C08 ENUM: {r['abstract_states']}/{r['space']} abstract states (closure {'reached' if r['abstract_states'] == r['space'] else 'NOT reached'}), {r['ops']} operations, max history {r['maxdepth']}, {len(r['findings'])} violation signatures, {time.time()-t0:.1f}s")
    return r["abstract_states"] == r["space"] or bool(r["findings"])


def replay(body) -> int:
    if body["replay"].get("bulk_load"):
        bad = bulk_load()
        for sig, msg in bad:
            print(" | ".join(sig), "::", msg)
        if bad:
            print(f"VIOLATION property=C08 replay={body.get('_path')}")
            return 1
        print("not reproduced on this tree")
        return 0
    rp = body["replay"]
    U = Universe(*rp["shape"])
    sim = U.empty
    hit = False
    for op, eid, ci in rp["ops"]:
        res = U.apply(sim, op, eid, ci)
        if isinstance(res, Failure):
            print(f"{op} {eid} -> {ci}: refused ({res.failure()})")
            continue
        sim = res.unwrap()
        bad = index_mismatches(sim)
        print(f"{op} {eid} -> {ci}: entities {U.abstract(sim)} index mismatches {bad}")
        hit = hit or bool(bad)
    if hit:
        print(f"VIOLATION property=C08 replay={body.get('_path')}")
        return 1
    # non-index clauses: re-run the closure and compare signatures
    r = closure(*rp["shape"])
    if r["findings"]:
        for sig, (msg, _) in r["findings"].items():
            print(" | ".join(map(str, sig)), "::", msg)
        print(f"VIOLATION property=C08 replay={body.get('_path')}")
        return 1
    print("not reproduced on this tree")
    return 0
