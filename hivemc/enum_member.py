"""
C10, activity level: every activity that names a target is entered DIRECTLY through the public state-transition API
(entity_state_ops.transition_previous_to_next, as the library's own tests do) for every assignment of memberships
(none / f1 / f2 / both) to the vehicle and to the target(s) -- including pooling trip plans with one and two requests,
which the instruction interface of this version cannot produce.  Oracle: the activity is entered only if EVERY target
grants the vehicle access (entities without membership are open to all).
"""
from __future__ import annotations

import itertools
from typing import Any, Dict, List, Tuple

import immutables

from . import seed, tier
from .report import Check, Finding, log
from .worlds import build_sim, make_config, make_env, membership, mk_base, mk_station, mk_vehicle, sites

from nrel.hive.model.request import Request
from nrel.hive.model.roadnetwork.haversine_roadnetwork import HaversineRoadNetwork
from nrel.hive.model.sim_time import SimTime
from nrel.hive.model.vehicle.trip_phase import TripPhase
from nrel.hive.state.entity_state import entity_state_ops
from nrel.hive.state.simulation_state import simulation_state_ops
from nrel.hive.state.vehicle_state.charge_queueing import ChargeQueueing
from nrel.hive.state.vehicle_state.charging_base import ChargingBase
from nrel.hive.state.vehicle_state.charging_station import ChargingStation
from nrel.hive.state.vehicle_state.dispatch_base import DispatchBase
from nrel.hive.state.vehicle_state.dispatch_pooling_trip import DispatchPoolingTrip
from nrel.hive.state.vehicle_state.dispatch_station import DispatchStation
from nrel.hive.state.vehicle_state.dispatch_trip import DispatchTrip
from nrel.hive.state.vehicle_state.reserve_base import ReserveBase
from nrel.hive.state.vehicle_state.servicing_trip import ServicingTrip

M = {"none": (), "f1": ("f1",), "f2": ("f2",), "both": ("f1", "f2")}
KINDS = ("DispatchTrip", "ServicingTrip", "DispatchStation", "ChargingStation", "ChargeQueueing", "DispatchBase", "ReserveBase",
         "ChargingBase", "DispatchPoolingTrip/1", "DispatchPoolingTrip/2", "DispatchPoolingTrip/3")


def grants(target_m: Tuple[str, ...], vehicle_m: Tuple[str, ...]) -> bool:
    return not target_m or bool(set(target_m) & set(vehicle_m))


def run_case(env, rn, kind: str, vm: str, tms: Tuple[str, ...]):
    S = sites()
    v = mk_vehicle(env, rn, "v0", S["A"], "quiet", soc=0.5, fleets=M[vm])
    stations, bases, reqs = [], [], []

    def req(rid, cell, m, pooling=False):
        r = Request.build(rid, cell, S["M2"], rn, SimTime.build(0), 1, pooling)
        return r.set_membership(M[m]) if M[m] else r

    if kind in ("DispatchTrip",):
        reqs = [req("r1", S["N1"], tms[0])]
    elif kind == "ServicingTrip":
        reqs = [req("r1", S["A"], tms[0])]
    elif kind == "DispatchStation":
        stations = [mk_station(env, rn, "s1", S["N1"], {"DCFC": 1}, fleets=M[tms[0]])]
    elif kind in ("ChargingStation", "ChargeQueueing"):
        st = mk_station(env, rn, "s1", S["A"], {"DCFC": 1}, fleets=M[tms[0]])
        if kind == "ChargeQueueing":
            _, st = st.checkout_charger("DCFC")
        stations = [st]
    elif kind == "DispatchBase":
        bases = [mk_base(rn, "b1", S["N1"], stalls=1, fleets=M[tms[0]])]
    elif kind == "ReserveBase":
        bases = [mk_base(rn, "b1", S["A"], stalls=1, fleets=M[tms[0]])]
    elif kind == "ChargingBase":
        stations = [mk_station(env, rn, "bs", S["A"], {"LEVEL_2": 1})]
        bases = [mk_base(rn, "b1", S["A"], stalls=1, station_id="bs", fleets=M[tms[0]])]
    else:
        n = int(kind.split("/")[1])
        cells = [S["N1"], S["N2"], S["N3"]]
        reqs = [req(f"r{i+1}", cells[i], tms[i], pooling=True) for i in range(n)]
    sim = build_sim(env, rn, vehicles=(v,), stations=stations, bases=bases)
    for r in reqs:
        sim = simulation_state_ops.add_request_safe(sim, r).unwrap()
    prev = v.vehicle_state
    if kind == "DispatchTrip":
        nxt = DispatchTrip.build("v0", "r1", rn.route(v.position, reqs[0].position))
    elif kind == "ServicingTrip":
        # the only supported way in: from a DispatchTrip that has arrived
        dt = DispatchTrip.build("v0", "r1", ())
        sim = simulation_state_ops.modify_vehicle(sim, v.modify_vehicle_state(dt))[1]
        prev = dt
        nxt = ServicingTrip.build("v0", reqs[0], sim.sim_time, rn.route(reqs[0].position, reqs[0].destination_position))
    elif kind == "DispatchStation":
        nxt = DispatchStation.build("v0", "s1", rn.route(v.position, stations[0].position), "DCFC")
    elif kind == "ChargingStation":
        nxt = ChargingStation.build("v0", "s1", "DCFC")
    elif kind == "ChargeQueueing":
        nxt = ChargeQueueing.build("v0", "s1", "DCFC", sim.sim_time)
    elif kind == "DispatchBase":
        nxt = DispatchBase.build("v0", "b1", rn.route(v.position, bases[0].position))
    elif kind == "ReserveBase":
        nxt = ReserveBase.build("v0", "b1")
    elif kind == "ChargingBase":
        nxt = ChargingBase.build("v0", "b1", "LEVEL_2")
    else:
        plan = tuple((r.id, TripPhase.PICKUP) for r in reqs) + tuple((r.id, TripPhase.DROPOFF) for r in reqs)
        nxt = DispatchPoolingTrip.build("v0", plan, rn.route(v.position, reqs[0].position))
    err, out = entity_state_ops.transition_previous_to_next(sim, env, prev, nxt)
    entered = out is not None and type(out.vehicles["v0"].vehicle_state) is type(nxt)
    allowed = all(grants(M[t], M[vm]) for t in tms)
    recorded = []
    if out is not None:
        recorded = [r.id for r in out.requests.values() if r.dispatched_vehicle == "v0"]
    return entered, allowed, recorded


def c10_enum(c: Check):
    cfg = make_config()
    env = make_env(cfg, fleets=("f1", "f2"))
    rn = HaversineRoadNetwork(sim_h3_resolution=15)
    cases = 0
    nontrivial = 0
    accepted = 0
    refused_although_allowed = 0
    samples = []
    for kind in KINDS:
        ntargets = int(kind.split("/")[1]) if "/" in kind else 1
        for vm in M:
            for tms in itertools.product(M, repeat=ntargets):
                cases += 1
                try:
                    entered, allowed, recorded = run_case(env, rn, kind, vm, tms)
                except Exception as e:
                    c.add(Finding("C10", ("enter_exception", kind, type(e).__name__), f"{kind} vehicle={vm} targets={tms}: {type(e).__name__}: {e}", {"engine": "enum_member", "kind": kind, "vehicle": vm, "targets": list(tms)}))
                    continue
                if not allowed:
                    nontrivial += 1
                    if entered:
                        c.add(Finding("C10", ("entered_without_access", kind.split("/")[0], "vehicle_without_fleet" if vm == "none" else "other_fleet"),
                                      f"a vehicle with memberships {list(M[vm])} entered {kind} although target memberships are {[list(M[t]) for t in tms]}",
                                      {"engine": "enum_member", "kind": kind, "vehicle": vm, "targets": list(tms)}))
                    elif recorded:
                        c.add(Finding("C10", ("refused_but_recorded", kind.split("/")[0]), f"{kind} was refused but requests {recorded} record the vehicle",
                                      {"engine": "enum_member", "kind": kind, "vehicle": vm, "targets": list(tms)}))
                else:
                    if entered:
                        accepted += 1
                    else:
                        refused_although_allowed += 1
                if len(samples) < 3 and ntargets == 2 and not allowed:
                    samples.append({"activity": kind, "vehicle": list(M[vm]), "targets": [list(M[t]) for t in tms], "entered": entered})
    cov = c.coverage
    cov["activity_level_cases"] = cases
    cov["activity_level_cases_without_access"] = nontrivial
    cov["activity_level_accepted_with_access"] = accepted
    cov["activity_level_refused_although_allowed (counted, not judged)"] = refused_although_allowed
    cov.setdefault("samples", [])
    cov["samples"] += samples
    cov["states"] = cov.get("states", 0) + cases
    cov["transitions"] = cov.get("transitions", 0) + cases
    if accepted == 0:
        c.vacuous.append("activity level: nothing was ever accepted")
    log(f"  C10 ENUM (activity level): {cases} cases, {nontrivial} without access, {accepted} accepted with access, {refused_although_allowed} refused although allowed")


def replay(body) -> int:
    rp = body["replay"]
    env = make_env(make_config(), fleets=("f1", "f2"))
    rn = HaversineRoadNetwork(sim_h3_resolution=15)
    entered, allowed, recorded = run_case(env, rn, rp["kind"], rp["vehicle"], tuple(rp["targets"]))
    print(f"{rp['kind']} vehicle={rp['vehicle']} targets={rp['targets']}: entered={entered} allowed={allowed} recorded={recorded}")
    if (entered or recorded) and not allowed:
        print(f"VIOLATION property=C10 replay={body.get('_path')}")
        return 1
    print("not reproduced on this tree")
    return 0
